module autoyield

go 1.26
