package model

import "time"

// Permission bits as documented for channel keys.
const (
	PermMaster   = uint8(1 << 0)
	PermRead     = uint8(1 << 1)
	PermWrite    = uint8(1 << 2)
	PermStore    = uint8(1 << 3)
	PermLoad     = uint8(1 << 4)
	PermPresence = uint8(1 << 5)
	PermExtend   = uint8(1 << 6)
)

// PermsOf converts a type string ("rwslpe") to a mask.
func PermsOf(typ string) uint8 {
	var p uint8
	for _, c := range typ {
		switch c {
		case 'r':
			p |= PermRead
		case 'w':
			p |= PermWrite
		case 's':
			p |= PermStore
		case 'l':
			p |= PermLoad
		case 'p':
			p |= PermPresence
		case 'e':
			p |= PermExtend
		}
	}
	return p
}

// KeyInfo is what the model knows about a key it handed to a client.
type KeyInfo struct {
	Name     string
	Key      string
	Decrypts bool // decrypts under the broker's license
	Contract bool // belongs to an allowed contract with the same signature and master id
	Perms    uint8
	Target   string    // e.g. "a/+/", "a/#/", "#/"
	Expires  time.Time // zero = never
	Banned   bool
}

// Covers says whether a key target covers a requested channel: equal levels
// where the target has literals, any level where it has '+', the same depth for
// exact targets and at least that depth for '#/' targets, wildcard levels in
// the request only where the target is itself wildcard or beyond its depth.
func Covers(target string, req []string) bool {
	t := Levels(target)
	wild := len(t) > 0 && t[len(t)-1] == "#"
	if wild {
		t = t[:len(t)-1]
	}
	if wild {
		if len(req) < len(t) {
			return false
		}
	} else if len(req) != len(t) {
		return false
	}
	for i, tl := range t {
		if tl == "+" {
			continue
		}
		if req[i] != tl { // includes req[i] being '+' or '#'
			return false
		}
	}
	return true
}

// Permitted is the reference authorization decision.
func Permitted(k *KeyInfo, need uint8, req []string, now time.Time) bool {
	if k == nil || !k.Decrypts || !k.Contract || k.Banned {
		return false
	}
	if !k.Expires.IsZero() && !now.Before(k.Expires) {
		return false
	}
	if k.Perms&need != need {
		return false
	}
	return Covers(k.Target, req)
}
