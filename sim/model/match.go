// Package model holds the executable reference models. They are written from
// the property statements, not from the implementation.
package model

import (
	"strings"

	"github.com/emitter-io/emitter/internal/security/hash"
)

// Levels splits "a/b/" into ["a","b"].
func Levels(channel string) []string {
	channel = strings.TrimSuffix(channel, "/")
	if channel == "" {
		return nil
	}
	return strings.Split(channel, "/")
}

// Join builds "a/b/" from levels.
func Join(levels []string) string { return strings.Join(levels, "/") + "/" }

// MatchEmitter: the filter is a level-wise prefix of the channel and '+'
// matches any one level.
func MatchEmitter(filter, channel []string) bool {
	if len(filter) > len(channel) {
		return false
	}
	for i, f := range filter {
		if f != "+" && f != channel[i] {
			return false
		}
	}
	return true
}

// MatchMQTT: same depth, '+' matches one level, a trailing '#' matches one or
// more further levels.
func MatchMQTT(filter, channel []string) bool {
	if n := len(filter); n > 0 && filter[n-1] == "#" {
		pre := filter[:n-1]
		if len(channel) < len(pre)+1 {
			return false
		}
		for i, f := range pre {
			if f != "+" && f != channel[i] {
				return false
			}
		}
		return true
	}
	if len(filter) != len(channel) {
		return false
	}
	for i, f := range filter {
		if f != "+" && f != channel[i] {
			return false
		}
	}
	return true
}

// Match dispatches on the matcher mode ("mqtt" or anything else = emitter).
func Match(mode string, filter, channel []string) bool {
	if mode == "mqtt" {
		return MatchMQTT(filter, channel)
	}
	return MatchEmitter(filter, channel)
}

// Ssid computes the subscription id words of (contract, levels). This is the
// published wire/hash format (murmur3 seed 37 per level), needed to read the
// trie dump; it is a codec, not logic under test.
func Ssid(contract uint32, levels []string) []uint32 {
	out := []uint32{contract}
	for _, l := range levels {
		out = append(out, hash.OfString(l))
	}
	return out
}
