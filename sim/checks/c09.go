package checks

import (
	"bytes"
	"encoding/hex"
	"encoding/json"
	"fmt"
	"github.com/golang/snappy"
	"runtime"
	"runtime/debug"
	"strings"
	"time"

	"github.com/eclipse/paho.mqtt.golang/packets"
	"github.com/emitter-io/emitter/internal/event"
	"github.com/emitter-io/emitter/internal/message"
	"github.com/emitter-io/emitter/verifsim/kernel"
	"github.com/emitter-io/emitter/verifsim/model"
	"github.com/emitter-io/emitter/verifsim/mqttc"
	"github.com/emitter-io/emitter/verifsim/world"
)

// C09 — hostile or malformed input cannot take the broker down.
// Caveat (DESIGN.md): this is the check closest to fuzzing; what the simulator
// adds is the whole broker around the decoders (a canary client served between
// attack steps, the clock, the store, the gossip entry points) and exact replay.

func init() {
	kernel.Register(&kernel.World{
		Property: "C09", Bubble: true, Run: runC09, RunsPerProc: 60, RunTimeout: 120 * time.Second, HangIsViolation: true,
		Rule:        "one run = one real broker (message size limit 1 KiB .. 64 KiB by tape, in-memory store, cluster configured) with a canary client; each step is one attack: random bytes; valid CONNECT / SUBSCRIBE / UNSUBSCRIBE / PUBLISH packets truncated at any offset, with flipped bytes, inflated or zero remaining-length and string-length fields; well-formed requests with extreme last / ttl / from / until options, JSON numbers and topic counts; a PUBLISH larger than the configured size; random, truncated, bit-flipped and count-inflated payloads handed to the gossip entry points (OnGossip, OnGossipBroadcast, OnGossipUnicast) as a byzantine peer would. After every step: the process is alive and the step quiesced (a dead or hung worker is re-run alone by the driver and reported), a panic on a gossip goroutine counts as process exit, bytes allocated by the step stay below max(64 MiB, 1024 x bytes injected), the canary's publish comes back to it, nothing of an oversize packet is delivered. non-trivial = >= 10 attack steps survived with the canary served; distinct = distinct canonical logs",
		Real:        []string{"mqtt.DecodePacket and every packet decoder", "broker.Conn (Process, recover in Close)", "security.ParseChannel options", "pubsub / history / keygen request handlers", "storage lookup sizing", "event.DecodeState, crdt codecs, message.DecodeFrame, survey", "cluster.Swarm gossip callbacks"},
		Stub:        []string{"client sockets (simnet)", "the byzantine peer = direct calls of the Gossiper callbacks", "clock (synctest)", "memory ceiling = allocation accounting per step (runtime.MemStats)"},
		Assumptions: []string{"allocation is measured per step with TotalAlloc; a leak spread thinly over many steps is not seen", "TLS, HTTP contract/metering providers and OS-level resource limits are outside the simulation"},
	})
}

func c09Mutate(c *kernel.Ctx, b []byte) []byte {
	t := c.Tape
	b = append([]byte(nil), b...)
	switch t.Choose(7) {
	case 0: // truncate
		if len(b) > 0 {
			b = b[:t.Choose(len(b))]
		}
	case 1: // flip some bytes
		for i := 0; i < t.Range(1, 4) && len(b) > 0; i++ {
			b[t.Choose(len(b))] ^= byte(1 << t.Choose(8))
		}
	case 2: // inflate the remaining length
		if len(b) > 2 {
			b = append([]byte{b[0], 0xff, 0xff, 0xff, 0x7f}, b[2:]...)
		}
	case 3: // zero remaining length
		if len(b) > 0 {
			b = []byte{b[0], 0}
		}
	case 4: // inflate an inner 16-bit length field
		if len(b) > 6 {
			i := 2 + t.Choose(len(b)-4)
			b[i], b[i+1] = 0xff, 0xff
		}
	case 5: // remaining length says less than there is
		if len(b) > 3 {
			b[1] = byte(t.Choose(int(b[1]) + 1))
		}
	case 6: // garbage tail
		b = append(b, bytes.Repeat([]byte{byte(t.Choose(256))}, t.Range(1, 50))...)
	}
	return b
}

func runC09(c *kernel.Ctx) {
	t := c.Tape
	c.SleepToEpoch()
	lic := world.Licenses[t.Choose(3)]
	msgSize := []int{1024, 4096, 65536}[t.Choose(3)]
	b := world.StartBroker(c, world.BrokerOpts{Lic: lic, Cluster: true, NodeName: "00:00:00:00:00:01", Advertise: "10.0.0.1:4000", StateDir: ":memory:", Storage: "inmemory", MessageSize: msgSize, Matcher: []string{"", "mqtt"}[t.Choose(2)]})
	defer b.Close()
	c.Logf("msgsize=%d lic=v%d", msgSize, lic.Ver)
	canary := b.Attach("canary")
	world.ConnectClient(c, canary, "canary", "", nil)
	key := world.Keygen(c, canary, lic.Master, "#/", "rwlsp", 0)
	canary.Send(canary.Subscribe(key + "/canary/"))
	canary.Send(canary.Subscribe(key + "/big/"))
	world.Settle()
	canary.Recv()
	// something in the store so that history paths have work to do
	for i := 0; i < 3; i++ {
		canary.Send(canary.Publish(key+"/canary/?ttl=600", []byte(fmt.Sprintf("stored%d", i)), false, false))
	}
	world.Settle()
	canary.Recv()
	sw := b.Svc.VerifSwarm()
	if t.Chance(1, 2) {
		// another broker has a subscriber on the canary's channel: the subscription index then also holds a
		// subscriber that is not a client connection, and everything published there is forwarded too
		uv := func(b []byte, x uint64) []byte {
			for x >= 0x80 {
				b = append(b, byte(x)|0x80)
				x >>= 7
			}
			return append(b, byte(x))
		}
		k := []byte{0, 0, 0, 0, 0, 0, 0, 2, 0, 0, 0, 0, 0, 0, 0, 77}
		for _, wd := range model.Ssid(lic.Contract, []string{"canary"}) {
			k = append(k, byte(wd>>24), byte(wd>>16), byte(wd>>8), byte(wd))
		}
		v := make([]byte, 16)
		stamp := uint64(time.Now().UnixNano())
		for i := 0; i < 8; i++ {
			v[i] = byte(stamp >> (56 - 8*i))
		}
		v = append(v, 0)                   // user: empty
		v = append(uv(v, 7), "canary/"...) // channel
		enc := []byte{1, 0}                // one set, of subscriptions
		enc = uv(enc, 1)
		enc = append(uv(enc, uint64(len(k))), k...)
		enc = append(uv(enc, uint64(len(v))), v...)
		if _, err := sw.OnGossip(snappy.Encode(nil, enc)); err != nil {
			c.Harnessf("remote subscription not merged: %v", err)
		}
		world.Settle()
		c.Probe("remote-subscriber-on-the-canary-channel")
	}
	// valid payloads to mutate. They are fixed byte strings (captured once from
	// State.Encode / Frame.Encode): encoding them afresh would follow Go map
	// iteration and per-process id nonces, and a run would not replay.
	validState, _ := hex.DecodeString("ae011003020110000901000209072800071a18d8016e39535b150d1109011c036369640000021c090e192e1000000001000910040316093a042c5a0d251c000004612f622f180d0f00030d0800091134001409300433ab0908405d320002612f010107736f6d656b65791009172438860000000000000000")
	validFrame, _ := hex.DecodeString("4d90021800000003ef9575e7fffffffedf65eba3000000010000000202612f0568656c6c6f001c1d2300fd2e230001182c04612f622f05776f726c6400")
	if _, err := event.DecodeState(validState); err != nil {
		c.Harnessf("the captured state payload no longer decodes: %v", err)
	}
	if f, err := message.DecodeFrame(validFrame); err != nil || len(f) != 2 {
		c.Harnessf("the captured frame payload no longer decodes: %v", err)
	}
	var ms runtime.MemStats
	survived := 0
	seq := 0
	steps := t.Range(10, 120)
	for s := 0; s < steps && !t.Exhausted(); s++ {
		c.Step()
		runtime.ReadMemStats(&ms)
		before := ms.TotalAlloc
		injected := 0
		what := ""
		attacker := func() *mqttc.Client {
			a := b.Attach("attacker")
			if t.Chance(3, 4) {
				a.Send(mqttc.Connect("attacker", "", nil))
				world.Settle()
				a.Recv()
			}
			return a
		}
		gossip := func(name string, f func()) {
			defer func() {
				if r := recover(); r != nil {
					st := string(debug.Stack())
					if i := strings.Index(st, "panic("); i >= 0 {
						st = st[i:]
					}
					if len(st) > 900 {
						st = st[:900]
					}
					c.Check("exit", "gossip-panic "+name, "%s panicked on a byzantine payload (the mesh library does not recover on its receive goroutines: the broker process exits): %v\n%s", name, r, st)
				}
			}()
			f()
		}
		switch k := t.Choose(18); k {
		case 16, 17: // replicated-state payloads built on purpose
			var buf []byte
			hugeLens := [][]byte{
				{0xff, 0xff, 0xff, 0xff, 0xff, 0xff, 0xff, 0xff, 0xff, 0x01}, // 2^64-1
				{0x80, 0x80, 0x80, 0x80, 0x80, 0x80, 0x80, 0x80, 0x80, 0x01}, // 2^63
				{0xff, 0xff, 0xff, 0xff, 0xff, 0xff, 0xff, 0xff, 0x7f},       // 2^63-1
				{0xc0, 0xff, 0xff, 0xff, 0xff, 0xff, 0xff, 0xff, 0x7f},       // 2^63-64
				{0x80, 0x80, 0x80, 0x80, 0x10},                               // 2^32
				{0x80, 0x80, 0x80, 0x80, 0x08},                               // 2^31
				{0xff, 0xff, 0xff, 0xff, 0x07},                               // 2^31-1
				{0x80, 0x80, 0x80, 0x08},                                     // 2^24
			}
			switch t.Choose(3) {
			case 0: // a length (of the map, of a set, of a key or of a value) that no payload could hold
				body, err := snappy.Decode(nil, validState)
				if err != nil {
					c.Harnessf("snappy: %v", err)
				}
				at := t.Choose(len(body))
				huge := hugeLens[t.Choose(len(hugeLens))]
				mut := append(append(append([]byte(nil), body[:at]...), huge...), body[at:]...)
				if t.Chance(1, 2) {
					mut = append(append(append([]byte(nil), body[:at]...), huge...), body[at+1:]...) // replace instead of insert
				}
				buf = snappy.Encode(nil, mut)
				what = "crafted-state huge-length"
			default: // well-formed sets whose entries have keys of any length (an event key is 16 bytes + 4 per channel level) and any subset type
				// wire format: uvarint number of sets; per set: type byte, uvarint number of entries; per
				// entry: uvarint-prefixed key, uvarint-prefixed value (8 bytes add time, 8 bytes remove time, payload)
				uv := func(b []byte, x uint64) []byte {
					for x >= 0x80 {
						b = append(b, byte(x)|0x80)
						x >>= 7
					}
					return append(b, byte(x))
				}
				nsets := t.Range(1, 2)
				enc := uv(nil, uint64(nsets))
				for n := 0; n < nsets; n++ {
					typ := byte((t.Choose(4) + n) % 4) // 3: a type this version does not know
					ne := t.Range(1, 3)
					enc = uv(append(enc, typ), uint64(ne))
					for e := 0; e < ne; e++ {
						kl := []int{0, 1, 7, 8, 15, 16, 17, 19, 20, 21, 24, 40}[t.Choose(12)]
						key := make([]byte, kl)
						for i := range key {
							key[i] = byte(0x11 * (i%15 + 1))
						}
						if kl >= 8 && t.Chance(1, 2) {
							copy(key, []byte{0, 0, 0, 0, 0, 0, 0, 2}) // a peer this broker knows
						}
						val := make([]byte, 16)
						stamp := uint64(time.Now().UnixNano())
						off := 0
						if t.Chance(1, 2) {
							off = 8 // a removal
						}
						for i := 0; i < 8; i++ {
							val[off+i] = byte(stamp >> (56 - 8*i))
						}
						if t.Chance(1, 3) {
							val = append(val, []byte{0x03, 0x01, 0x02}[:t.Range(1, 3)]...)
						} else if t.Chance(1, 3) {
							// an encoded event whose string / byte fields announce a length no payload could hold
							val = append(val, []byte{0x01, 0x00, 0x02}[:t.Choose(4)]...)
							val = append(val, hugeLens[t.Choose(len(hugeLens))]...)
							val = append(val, 'x', 'y')
						}
						if t.Chance(1, 8) {
							val = val[:[]int{0, 8, 15}[t.Choose(3)]] // shorter than the two times
						}
						enc = append(uv(enc, uint64(len(key))), key...)
						enc = append(uv(enc, uint64(len(val))), val...)
					}
				}
				buf = snappy.Encode(nil, enc)
				what = "crafted-state odd-keys"
			}
			gossip("OnGossip", func() { sw.OnGossip(buf) })
			gossip("OnGossipBroadcast", func() { sw.OnGossipBroadcast(2, buf) })
			injected = 2 * len(buf)
		case 14, 15: // frames built on purpose: what a hostile (or merely unusual) peer can put on the cluster port
			var buf []byte
			fixID := func(m *message.Message) *message.Message { // time, sequence and process nonce of the id: fixed, so that the bytes replay
				copy(m.ID[4:16], []byte{0xef, 0x95, 0x75, 0xe7, 0xff, 0xff, 0xff, 0xfe, 0xdf, 0x65, 0xeb, 0xa3})
				return m
			}
			switch t.Choose(4) {
			case 0: // a message for a channel with a local subscriber whose re-encoded PUBLISH is just around 64 KiB
				total := 65500 + t.Choose(60)
				ssid := message.Ssid(model.Ssid(lic.Contract, []string{"canary"}))
				m := fixID(message.New(ssid, []byte("canary/"), bytes.Repeat([]byte{'z'}, total-2-len("canary/"))))
				f := message.Frame{*m}
				buf = f.Encode()
				what = fmt.Sprintf("crafted-frame big-message publish-length=%d", min(max(total, 65529), 65537))
			case 1: // a length prefix of 2^63 or more somewhere in the frame body
				body, err := snappy.Decode(nil, validFrame)
				if err != nil {
					c.Harnessf("snappy: %v", err)
				}
				at := t.Choose(len(body)) // 0: the number of messages of the frame
				huge := [][]byte{
					{0xff, 0xff, 0xff, 0xff, 0xff, 0xff, 0xff, 0xff, 0xff, 0x01}, // 2^64-1
					{0x80, 0x80, 0x80, 0x80, 0x80, 0x80, 0x80, 0x80, 0x80, 0x01}, // 2^63
					{0x80, 0x80, 0x80, 0x08},                                     // 2^24
					{0xff, 0xff, 0xff, 0xff, 0x07},                               // 2^31-1
					{0xff, 0xff, 0xff, 0xff, 0xff, 0xff, 0xff, 0xff, 0x7f},       // 2^63-1
					{0xc0, 0xff, 0xff, 0xff, 0xff, 0xff, 0xff, 0xff, 0x7f},       // 2^63-64
					{0x80, 0x80, 0x80, 0x80, 0x10},                               // 2^32
					{0x80, 0x80, 0x80, 0x80, 0x08},                               // 2^31
				}[t.Choose(8)]
				mut := append(append(append([]byte(nil), body[:at]...), huge...), body[at:]...)
				if t.Chance(1, 2) && at+1 <= len(body) {
					mut = append(append(append([]byte(nil), body[:at]...), huge...), body[at+1:]...) // replace instead of insert
				}
				buf = snappy.Encode(nil, mut)
				what = "crafted-frame huge-length"
				if at == 0 {
					what = "crafted-frame huge-count"
				}
			case 2: // a survey request whose channel lacks the reply address, or whose query announces impossible lengths
				ch := []string{"ssdstore", "presence", "x/notanumber", "", "/", "ssdstore/2", "presence/2", "ssdstore/2", "ssdstore/2"}[t.Choose(9)]
				payload := []byte("{}")
				if t.Chance(1, 2) {
					huge := [][]byte{
						{0xff, 0xff, 0xff, 0xff, 0xff, 0xff, 0xff, 0xff, 0xff, 0x01}, // 2^64-1
						{0x80, 0x80, 0x80, 0x80, 0x80, 0x80, 0x80, 0x80, 0x80, 0x01}, // 2^63
						{0xff, 0xff, 0xff, 0xff, 0xff, 0xff, 0xff, 0xff, 0x7f},       // 2^63-1
						{0x80, 0x80, 0x80, 0x80, 0x10},                               // 2^32
						{0xff, 0xff, 0xff, 0xff, 0x07},                               // 2^31-1
						{0x80, 0x80, 0x80, 0x80, 0x01},                               // 2^28
					}[t.Choose(6)]
					if t.Chance(1, 2) { // the number of SSID parts
						payload = append(append([]byte(nil), huge...), 1, 2, 3)
					} else { // a well-formed SSID and window, then the length of the continuation id
						payload = append([]byte{0x02, 0x01, 0x02, 0x00, 0x00}, huge...)
						payload = append(payload, 1, 2, 3)
					}
				}
				m := fixID(message.New(message.Ssid{0, 3939663052, uint32(t.Choose(5))}, []byte(ch), payload))
				f := message.Frame{*m}
				buf = f.Encode()
				what = "crafted-frame survey-request"
			default: // a survey response nobody asked for
				m := fixID(message.New(message.Ssid{0, 3939663052, uint32(t.Choose(5))}, []byte("response"), []byte("zz")))
				f := message.Frame{*m}
				buf = f.Encode()
				what = "crafted-frame survey-response"
			}
			gossip("OnGossipUnicast", func() { sw.OnGossipUnicast(2, buf) })
			injected = len(buf)
		case 12: // every packet type (also the ones a client never sends) with a tape-chosen body
			a := attacker()
			typ := byte(t.Range(1, 15))
			flags := byte(t.Choose(16))
			n := []int{0, 1, 2, 3, 5, 12, 100}[t.Choose(7)]
			body := make([]byte, n)
			x := uint32(t.Choose(1 << 30))
			for i := range body {
				x = x*1664525 + 1013904223
				body[i] = byte(x >> 24)
				if t.Chance(1, 3) {
					body[i] = 0
				}
			}
			buf := append([]byte{typ<<4 | flags, byte(n)}, body...)
			a.Write(buf)
			injected, what = len(buf), fmt.Sprintf("typed-packet type=%d", typ)
		case 13: // degenerate but well-formed requests
			a := attacker()
			var buf []byte
			switch t.Choose(7) {
			case 5: // options a client may legally set, on the channel everybody listens to
				buf = mqttc.Encode(a.Publish(key+"/canary/?me=0", []byte("m0"), false, false))
			case 6:
				buf = mqttc.Encode(a.Publish(key+"/canary/?me=0&ttl=5&last=3", []byte("m1"), t.Chance(1, 2), t.Chance(1, 2)))
			case 0:
				buf = []byte{0x82, 0x02, 0x00, 0x01} // SUBSCRIBE without any topic
			case 1:
				buf = []byte{0xa2, 0x02, 0x00, 0x01} // UNSUBSCRIBE without any topic
			case 2:
				buf = mqttc.Encode(a.Publish("", []byte("x"), false, true)) // empty topic
			case 3:
				buf = mqttc.Encode(mqttc.Connect("", strings.Repeat("u", 3000), &mqttc.Will{Topic: key + "/" + strings.Repeat("w/", 200), Payload: bytes.Repeat([]byte{'w'}, 500)}))
			default:
				p := a.Publish(key+"/canary/", []byte("q2"), false, false)
				p.Qos = 2
				p.MessageID = 9
				buf = mqttc.Encode(p)
			}
			a.Write(buf)
			injected, what = len(buf), "degenerate-request"
		case 0: // random bytes
			a := attacker()
			n := t.Range(1, 2000)
			buf := make([]byte, n)
			x := uint32(t.Choose(1 << 30))
			for i := range buf {
				x = x*1664525 + 1013904223
				buf[i] = byte(x >> 24)
			}
			a.Write(buf)
			injected, what = n, "random-bytes"
		case 1, 2, 3: // mutated valid packets
			a := attacker()
			var p packets.ControlPacket
			switch t.Choose(4) {
			case 0:
				p = mqttc.Connect("x", "user", &mqttc.Will{Topic: key + "/a/", Payload: []byte("w")})
			case 1:
				p = a.Subscribe(key+"/a/b/", key+"/c/?last=3")
			case 2:
				p = a.Unsubscribe(key + "/a/b/")
			default:
				p = a.Publish(key+"/a/b/", []byte("payload"), t.Chance(1, 2), t.Chance(1, 2))
			}
			buf := c09Mutate(c, mqttc.Encode(p))
			a.Write(buf)
			injected, what = len(buf), "mutated-packet"
		case 4, 5: // extreme options on well-formed requests
			a := attacker()
			huge := []string{"0", "1000000", "50000000", "9223372036854775807", "99999999999999999999", "4294967296"}[t.Choose(6)]
			opt := []string{"last", "ttl", "from", "until", "me"}[t.Choose(5)]
			topic := fmt.Sprintf("%s/canary/?%s=%s", key, opt, huge)
			what = "extreme-option " + opt + "=" + huge
			if t.Chance(1, 2) {
				// option lists that are not well formed: 1-4 fragments joined by '&'
				frags := []string{"ttl=42", "last=3", "abc", "=", "a=", "=b", "a==b", "", "x=1=2", "me", "ttl=", "&", "?"}
				var parts []string
				for n := t.Range(1, 4); n > 0; n-- {
					parts = append(parts, frags[t.Choose(len(frags))])
				}
				topic = fmt.Sprintf("%s/canary/?%s", key, strings.Join(parts, "&"))
				what = fmt.Sprintf("malformed-options %q", strings.Join(parts, "&"))
			}
			if t.Chance(1, 2) {
				a.Send(a.Subscribe(topic))
			} else {
				a.Send(a.Publish(topic, []byte("x"), t.Chance(1, 2), false))
			}
			injected = len(topic) + 8
		case 6: // extreme JSON requests
			a := attacker()
			body := []string{
				fmt.Sprintf(`{"key":%q,"channel":"a/","type":"rw","ttl":99999999999999999999}`, lic.Master),
				fmt.Sprintf(`{"key":%q,"channel":"%s","type":"rw","ttl":-1}`, lic.Master, strings.Repeat("a/", 40)),
				fmt.Sprintf(`{"key":%q,"channel":"%s/canary/?last=50000000"}`, key, key),
				fmt.Sprintf(`{"key":%q,"channel":"canary/","status":true,"changes":{"a":1}}`, key),
				`{"key":[[[[[[[[[[[[[[[[[[[[[[[[[[[[[[[[]]]]]]]]]]]]]]]]]]]]]]]]]]]]]]]]}`,
				strings.Repeat("[", 5000),
			}[t.Choose(6)]
			req := []string{"keygen", "history", "presence", "link", "keyban", "me"}[t.Choose(6)]
			a.Send(a.Publish("emitter/"+req+"/", []byte(body), false, false))
			injected, what = len(body), "extreme-json "+req
		case 7: // many topics in one SUBSCRIBE
			a := attacker()
			n := []int{50, 300, 2000}[t.Choose(3)]
			topics := make([]string, n)
			for i := range topics {
				topics[i] = fmt.Sprintf("%s/t%d/", key, i)
			}
			p := a.Subscribe(topics...)
			buf := mqttc.Encode(p)
			a.Write(buf)
			injected, what = len(buf), fmt.Sprintf("subscribe-%d-topics", n)
		case 8: // oversize publish: must be refused, nothing of it delivered
			a := attacker()
			pl := bytes.Repeat([]byte{'Z'}, msgSize+t.Range(1, 2000))
			buf := mqttc.Encode(a.Publish(key+"/big/", pl, false, false))
			a.Write(buf)
			world.Settle()
			pk, _ := canary.Recv()
			for _, x := range pk {
				if pub, ok := x.(*packets.PublishPacket); ok && pub.TopicName == "big/" {
					c.Check("oversize", fmt.Sprintf("limit=%d", msgSize), "a PUBLISH of %d bytes was accepted and delivered although the configured message size is %d", len(buf), msgSize)
				}
			}
			injected, what = len(buf), "oversize-publish"
		case 9: // byzantine state payloads
			buf := validState
			if t.Chance(3, 4) {
				buf = c09Mutate(c, validState)
			}
			gossip("OnGossip", func() { sw.OnGossip(buf) })
			gossip("OnGossipBroadcast", func() { sw.OnGossipBroadcast(2, buf) })
			injected, what = 2*len(buf), "byzantine-state"
		case 10: // byzantine frames
			buf := c09Mutate(c, validFrame)
			gossip("OnGossipUnicast", func() { sw.OnGossipUnicast(2, buf) })
			injected, what = len(buf), "byzantine-frame"
		default: // random bytes on the cluster port
			n := t.Range(1, 600)
			buf := make([]byte, n)
			x := uint32(t.Choose(1 << 30))
			for i := range buf {
				x = x*1664525 + 1013904223
				buf[i] = byte(x >> 24)
			}
			gossip("OnGossip", func() { sw.OnGossip(buf) })
			gossip("OnGossipUnicast", func() { sw.OnGossipUnicast(3, buf) })
			injected, what = 2*n, "random-gossip"
		}
		world.Settle()
		world.Advance(c, 2100*time.Millisecond) // survey timeouts of history/presence requests
		runtime.ReadMemStats(&ms)
		alloc := ms.TotalAlloc - before
		c.Logf("attack %s (%d bytes)", what, injected)
		c.Fault(strings.Fields(what)[0])
		limit := uint64(64 << 20)
		if x := uint64(injected) * 1024; x > limit {
			limit = x
		}
		if alloc > limit {
			c.Check("mem", strings.Fields(what)[0]+" "+strings.Join(strings.Fields(what)[1:], " "), "one %s step of %d injected bytes made the broker allocate %d MiB", what, injected, alloc>>20)
		}
		// canary round trip
		seq++
		pl := fmt.Sprintf("canary-%d", seq)
		canary.Recv()
		canary.Send(canary.Publish(key+"/canary/", []byte(pl), false, false))
		world.Settle()
		pk, err := canary.Recv()
		ok := false
		for _, x := range pk {
			if pub, y := x.(*packets.PublishPacket); y && string(pub.Payload) == pl {
				ok = true
			}
		}
		if err != nil || !ok {
			c.Check("canary", strings.Fields(what)[0], "after a %s step the canary client's publish no longer comes back to it (err=%v, closed=%v)", what, err, canary.Conn.PeerClosed())
			return
		}
		survived++
		c.State(what)
	}
	if survived >= 10 {
		c.NonTrivial()
	}
	_ = json.Marshal
}
