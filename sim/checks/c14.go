package checks

import (
	"fmt"
	"os"
	"path/filepath"
	"strings"
	"testing/synctest"
	"time"

	"github.com/eclipse/paho.mqtt.golang/packets"
	"github.com/emitter-io/emitter/internal/event"
	"github.com/emitter-io/emitter/verifsim/kernel"
	"github.com/emitter-io/emitter/verifsim/mqttc"
	"github.com/emitter-io/emitter/verifsim/world"
)

// C14 — banning a key takes effect immediately, survives restarts and reaches
// the other brokers with the gossip that carries it.

func init() {
	kernel.Register(&kernel.World{
		Property: "C14", Bubble: true, Run: runC14, RunsPerProc: 60, RunTimeout: 300 * time.Second,
		Rule:        "one run = two real brokers with durable state directories on /dev/shm joined over the simulated mesh; tape-generated sequence over 1-3 keys of ban / unban (real emitter/keyban/ requests on broker 0, each acknowledged) with a use of the key (subscribe) on broker 0 after EVERY acknowledgement, uses on broker 1 before and after the gossip has been delivered there, clock advances of 1 us, 1 s, 59 s, 61 s, clean restart (Close + NewService on the same directory) and crash restart (no shutdown code, restart on a copy of the directory taken at that instant) of broker 0 after any prefix, with a use on the restarted broker BEFORE any gossip reaches it; oracle = one boolean per key flipping at each acknowledgement; non-trivial = >= 1 ban followed by a refused use; distinct = distinct canonical logs",
		Real:        []string{"broker.Service x2", "keyban service", "Service.Authorize", "cluster.Swarm (Notify, Contains, merge)", "event.State", "crdt.Durable (buntdb file + freecache)"},
		Stub:        []string{"weaveworks/mesh (simmesh)", "client sockets (simnet)", "clock (synctest)", "crash image = copy of the state directory"},
		Assumptions: []string{"two requests of one client are at least 1 us apart (no timestamp tie between a ban and the unban that follows it)", "kill = process kill: what was written to the file is in the image (no power loss)"},
	})
}

type c14World struct {
	c      *kernel.Ctx
	cl     *world.Cluster
	keys   []string
	banned []bool
	known1 []bool // what broker 1 must answer once everything queued has been delivered
	cli    [2]*mqttc.Client
	n      int
}

func (w *c14World) client(b int) *mqttc.Client {
	if w.cli[b] == nil || w.cli[b].Gone {
		w.n++
		cl := w.cl.Brokers[b].Attach(fmt.Sprintf("u%d", w.n))
		world.ConnectClient(w.c, cl, fmt.Sprintf("u%d", w.n), "", nil)
		w.cli[b] = cl
	}
	return w.cli[b]
}

// use subscribes with the key and reports whether the broker accepted it.
func (w *c14World) use(b, k int) bool {
	cl := w.client(b)
	p := cl.Subscribe(w.keys[k] + "/a/")
	cl.Send(p)
	world.Settle()
	pk, err := cl.Recv()
	if err != nil {
		w.c.Harnessf("use: %v", err)
	}
	for _, x := range pk {
		if sa, ok := x.(*packets.SubackPacket); ok && sa.MessageID == p.MessageID {
			return sa.ReturnCodes[0] != 0x80
		}
	}
	w.c.Harnessf("use: no SUBACK")
	return false
}

func (w *c14World) checkUse(b, k int, when string) {
	ok := w.use(b, k)
	exp := w.banned[k]
	if b == 1 {
		exp = w.known1[k]
	}
	w.c.Logf("use k%d on b%d (%s) -> accepted=%v", k, b, when, ok)
	if ok == !exp {
		return
	}
	switch {
	case b == 0 && exp && when == "after restart":
		w.c.Check("restart", when, "key k%d was banned (acknowledged) before broker 0 restarted on the same state directory, but is accepted afterwards", k)
	case b == 0 && !exp && when == "after restart":
		w.c.Check("restart", when+" unban", "key k%d was unbanned (acknowledged) before broker 0 restarted, but is refused afterwards", k)
	case b == 0 && exp:
		w.c.Check("ban-late", when, "key k%d is still accepted on broker 0 after the ban was acknowledged (%s)", k, when)
	case b == 0:
		w.c.Check("unban-late", when, "key k%d is still refused on broker 0 after the unban was acknowledged (%s)", k, when)
	case b == 1 && when == "right after the acknowledgement" && exp:
		w.c.Check("ban-late", when+" b1", "key k%d is still accepted on broker 1 after it acknowledged the ban", k)
	case b == 1 && when == "right after the acknowledgement":
		w.c.Check("unban-late", when+" b1", "key k%d is still refused on broker 1 after it acknowledged the unban", k)
	default:
		w.c.Check("remote", fmt.Sprintf("%s banned=%v", when, exp), "broker 1 has merged the gossip but answers accepted=%v for key k%d whose ban state is %v (%s)", ok, k, exp, when)
	}
}

func runC14(c *kernel.Ctx) {
	t := c.Tape
	if c.Params["campaign"] != "cluster" && (c.Params["campaign"] == "long" || t.Chance(1, 8)) {
		runC14Long(c)
		return
	}
	c.SleepToEpoch()
	lic := world.Licenses[t.Choose(3)]
	w := &c14World{c: c}
	w.cl = world.NewCluster(c, 2, lic, nil)
	defer w.cl.Close()
	cl := w.cl
	cl.LinkAll()
	cl.Drain(1000)
	cl.AdvanceNet(6 * time.Second)
	cl.Drain(1000)
	admin := w.client(0)
	nk := t.Range(1, 3)
	for i := 0; i < nk; i++ {
		w.keys = append(w.keys, world.Keygen(c, admin, lic.Master, "#/", "rw", 0))
	}
	w.banned = make([]bool, nk)
	w.known1 = make([]bool, nk)
	c.Logf("keys=%d lic=v%d", nk, lic.Ver)
	steps := t.Range(8, 60)
	restarts := 0
	issuer := 0 // which broker receives the keyban requests
	partitioned := false
	heal := func() {
		if !partitioned {
			return
		}
		cl.Net.Block(cl.Name(0), cl.Name(1), false)
		partitioned = false
		c.Logf("heal b0|b1")
		// emitter's own join loop brings the link back; the complete state travels on link-up and with the periodic gossip
		for i := 0; i < 4; i++ {
			for b := 0; b < 2; b++ {
				if cl.Brokers[b] != nil {
					w.client(b).Send(mqttc.Ping())
				}
			}
			world.Settle()
			cl.AdvanceNet(11 * time.Second)
			cl.Drain(2000)
			for b := 0; b < 2; b++ {
				if w.cli[b] != nil {
					w.cli[b].Recv()
				}
			}
		}
	}
	for s := 0; s < steps && !t.Exhausted(); s++ {
		c.Step()
		c.State(fmt.Sprintf("banned=%v known1=%v issuer=%d restarts=%d", w.banned, w.known1, issuer, restarts))
		k := t.Choose(nk)
		switch op := t.Choose(20); {
		case op < 2 && issuer == 0: // the requests move to the other broker (only once everything has been delivered)
			heal()
			cl.Drain(2000)
			copy(w.known1, w.banned)
			issuer = 1
			c.Logf("keyban requests now go to b1")
		case op < 8: // ban / unban, acknowledged, then used at once on the broker that acknowledged
			ban := t.Chance(1, 2)
			if t.Chance(2, 3) {
				ban = !w.banned[k] // mostly real toggles
			}
			if issuer == 1 {
				heal()
			}
			world.Advance(c, time.Duration(t.Range(1, 50))*time.Microsecond)
			r, _ := world.Request(c, w.client(issuer), "keyban", map[string]any{"secret": lic.Master, "target": w.keys[k], "banned": ban})
			if r == nil || r.Status != 200 {
				c.Harnessf("keyban not acknowledged: %+v", r)
			}
			w.banned[k] = ban
			c.Logf("keyban k%d banned=%v acknowledged by b%d", k, ban, issuer)
			if ban {
				c.NonTrivial()
			}
			if issuer == 0 {
				w.checkUse(0, k, "right after the acknowledgement")
			} else {
				w.known1[k] = ban
				w.checkUse(1, k, "right after the acknowledgement")
				// broker 0 learns it with the gossip
				cl.Drain(2000)
				w.checkUse(0, k, "later")
			}
		case op < 11:
			w.checkUse(0, k, "later")
		case op < 13: // broker 1 looks the key up with whatever it has merged so far: only the log records it
			ok := w.use(1, k)
			c.Logf("use k%d on b1 (may be stale) -> accepted=%v", k, ok)
			c.Probe("lookup-on-second-broker-before-merge")
		case op < 14 && !partitioned && issuer == 0 && restarts < 4: // the link between the brokers is cut for a while: broker 1 misses what is broadcast meanwhile
			cl.Drain(2000)
			copy(w.known1, w.banned)
			cl.Latency()
			cl.Net.Block(cl.Name(0), cl.Name(1), true)
			partitioned = true
			c.Fault("partition")
			c.Logf("partition b0|b1")
		case op < 15: // deliver everything: broker 1 must now agree
			heal()
			cl.Drain(2000)
			copy(w.known1, w.banned)
			for i := range w.keys {
				w.checkUse(1, i, "after the gossip was delivered")
			}
		case op < 18:
			d := []time.Duration{time.Microsecond, time.Second, 59 * time.Second, 61 * time.Second}[t.Choose(4)]
			if partitioned && t.Chance(1, 2) {
				// the outage lasts: minutes pass, in steps that keep the clients alive
				for n := t.Range(2, 6); n > 0; n-- {
					for b := 0; b < 2; b++ {
						w.client(b).Send(mqttc.Ping())
					}
					world.Settle()
					cl.AdvanceNet(59 * time.Second)
					for b := 0; b < 2; b++ {
						w.client(b).Recv()
					}
				}
				c.Logf("minutes pass during the partition")
			}
			if d >= time.Second {
				for b := 0; b < 2; b++ {
					w.client(b).Send(mqttc.Ping())
				}
				world.Settle()
				for b := 0; b < 2; b++ {
					w.client(b).Recv()
				}
			}
			cl.AdvanceNet(d)
			c.Logf("advance %v", d)
		default: // restart broker 0 on its state directory
			if restarts >= 4 {
				break
			}
			if t.Chance(1, 2) {
				heal() // otherwise the broker restarts while it is cut off: it meets the other one's (older) view only later
			}
			restarts++
			if t.Chance(1, 2) {
				cl.Crash(0)
				c.Logf("crash b0")
			} else {
				cl.Stop(0)
				c.Logf("clean stop b0")
			}
			w.cli[0] = nil
			world.Advance(c, time.Duration(t.Range(1, 3000))*time.Millisecond)
			cl.Start(0)
			c.Logf("b0 restarted")
			// no gossip has reached the restarted broker yet: only its own directory speaks
			for i := range w.keys {
				w.checkUse(0, i, "after restart")
			}
			cl.LinkAll()
		}
	}
	// finally: deliver everything, both brokers must agree with the acknowledgements
	heal()
	cl.Drain(2000)
	cl.AdvanceNet(31 * time.Second)
	cl.Drain(2000)
	copy(w.known1, w.banned)
	for i := range w.keys {
		w.checkUse(0, i, "at the end")
		w.checkUse(1, i, "after the gossip was delivered")
	}
}

// runC14Long — the long-lived campaign: the replicated ban set of one broker (the real
// event.State on a state directory, no sockets around it, so that hours cost nothing):
// tape-generated ban / unban histories over 1-3 keys, then 7-30 hours pass - far beyond
// every cache and every housekeeping interval of the set - and the state is closed and
// opened again on the same directory, possibly several times. After each step: a key is
// refused exactly when its last acknowledged request was a ban.
func runC14Long(c *kernel.Ctx) {
	t := c.Tape
	c.SleepToEpoch()
	dir := filepath.Join(c.Scratch, "longstate")
	os.MkdirAll(dir, 0o755)
	st := event.NewState(dir)
	defer func() { st.Close() }()
	nk := t.Range(1, 3)
	keys := make([]event.Ban, nk)
	banned := make([]bool, nk)
	toggles := make([]int, nk)
	for i := range keys {
		keys[i] = event.Ban(fmt.Sprintf("key-%d-%032d", i, i))
	}
	check := func(when string) {
		for i := range keys {
			if got := st.Has(&keys[i]); got != banned[i] {
				rule, what := "restart", "banned"
				if !banned[i] {
					what = "not banned"
				}
				if !strings.Contains(when, "restart") {
					rule = map[bool]string{true: "ban-late", false: "unban-late"}[banned[i]]
				}
				c.Check(rule, "long-lived "+when, "key %d is %s (after %d ban/unban requests) but the ban set answers %v %s", i, what, toggles[i], got, when)
			}
		}
	}
	steps := t.Range(4, 25)
	for s := 0; s < steps && !t.Exhausted(); s++ {
		c.Step()
		switch k := t.Choose(10); {
		case k < 6:
			i := t.Choose(nk)
			time.Sleep(time.Duration(t.Range(1, 5000)) * time.Millisecond)
			banned[i] = !banned[i]
			toggles[i]++
			if banned[i] {
				st.Add(&keys[i])
				c.NonTrivial()
			} else {
				st.Del(&keys[i])
			}
			c.Logf("key %d banned=%v", i, banned[i])
			check("right after the request")
		case k < 8:
			d := time.Duration(t.Range(7, 30)) * time.Hour
			time.Sleep(d)
			synctest.Wait()
			c.Stats.SimTime += d
			c.Logf("%v pass", d)
			c.Fault("hours-pass")
			check(fmt.Sprintf("after %d hours", int(d.Hours())))
		default:
			st.Close()
			time.Sleep(time.Duration(t.Range(1, 3000)) * time.Millisecond)
			st = event.NewState(dir)
			c.Logf("state closed and opened again")
			c.Fault("state-restart")
			check("after restart")
		}
		c.State(fmt.Sprintf("long banned=%v", banned))
	}
}
