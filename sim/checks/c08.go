package checks

import (
	"encoding/json"
	"fmt"
	"sort"
	"strings"
	"sync/atomic"
	"time"

	"github.com/eclipse/paho.mqtt.golang/packets"
	"github.com/emitter-io/emitter/internal/message"
	"github.com/emitter-io/emitter/verifsim/kernel"
	"github.com/emitter-io/emitter/verifsim/model"
	"github.com/emitter-io/emitter/verifsim/mqttc"
	"github.com/emitter-io/emitter/verifsim/world"
)

// C08 — a connection that ends leaves nothing behind; its last will fires once.
// Fault enumeration: for each tape-generated victim session, EVERY byte offset
// of the session is a cut point, crossed with the ways of ending.

func init() {
	kernel.Register(&kernel.World{
		Property: "C08", Bubble: true, Run: runC08, RunsPerProc: 6, RunTimeout: 600 * time.Second,
		Rule: "one evaluation = one tape-generated victim session (CONNECT with/without will and will-key kind, 2-7 further packets: subscribe incl. XOR-twin and wildcard filters, unsubscribe, presence-change request, link with auto-subscribe, publish) for which every byte offset is enumerated as a cut point x {abrupt close, write side failing first (replies and deliveries fail before the read loop sees the end), idle past the read deadline (quick tier: every 4th offset and every packet boundary)} plus {malformed header, DISCONNECT, handler panic} at every packet boundary, each on a fresh victim connection against the same broker and three watcher clients; non-trivial = the victim held >= 1 subscription at >= 1 cut; distinct = distinct canonical logs of whole enumerations; coverage.cuts counts the enumerated (offset, ending) pairs",
		Real:  []string{"broker.Service", "broker.Conn.Process/Close", "pubsub (Unsubscribe, OnLastWill)", "presence notifications", "link", "message.Trie", "message.Counters", "cluster.Swarm (single node)"},
		Stub:  []string{"client sockets (simnet: close/abort/cut at a byte, deadlines on the fake clock)", "weaveworks/mesh (simmesh, no peers)", "clock (synctest)"},
		Assumptions: []string{"a cut lands between two socket reads of the broker (bytes before the cut were delivered and processed)", "process kill is not a connection end (C15 covers it)"},
	})
}

type c08Op struct {
	kind    string // sub, unsub, pres, link, pub
	filters []string
	pkt     []byte
}

type c08World struct {
	c        *kernel.Ctx
	b        *world.Broker
	mode     string
	norm     *world.Norm
	kAll     *model.KeyInfo
	kRO      *model.KeyInfo
	will     *mqttc.Client // subscriber of the will channel
	pw       *mqttc.Client // presence watcher on a/
	other    *mqttc.Client // unrelated subscriber holding the same filters
	baseTrie map[string]bool
	baseConn int64
	cuts     int
	victimN  int
}

var c08Cuts atomic.Int64

func presenceEvents(pkts []packets.ControlPacket) (evs []string, rest []packets.ControlPacket) {
	for _, p := range pkts {
		if pub, ok := p.(*packets.PublishPacket); ok && pub.TopicName == "emitter/presence/" {
			var n struct {
				Event   string `json:"event"`
				Channel string `json:"channel"`
				Who     struct {
					ID       string `json:"id"`
					Username string `json:"username"`
				} `json:"who"`
			}
			if json.Unmarshal(pub.Payload, &n) == nil && (n.Event == "subscribe" || n.Event == "unsubscribe") {
				evs = append(evs, fmt.Sprintf("%s %s %s", n.Event, n.Channel, n.Who.Username))
				continue
			}
		}
		rest = append(rest, p)
	}
	return
}

func (w *c08World) trieKeys() map[string]bool {
	_, entries := w.b.Svc.VerifTrie().VerifDump()
	out := map[string]bool{}
	for _, e := range entries {
		out[fmt.Sprintf("%v|%s", e.Ssid, e.ID)] = true
	}
	return out
}

func runC08(c *kernel.Ctx) {
	t := c.Tape
	c.SleepToEpoch()
	w := &c08World{c: c, norm: world.NewNorm()}
	lic := world.Licenses[t.Choose(3)]
	if t.Chance(1, 2) {
		w.mode = "mqtt"
	}
	w.b = world.StartBroker(c, world.BrokerOpts{Lic: lic, Matcher: w.mode, Cluster: true, NodeName: "00:00:00:00:00:01", Advertise: "10.0.0.1:4000", StateDir: ":memory:"})
	defer w.b.Close()
	c.Logf("config lic=v%d mode=%q", lic.Ver, w.mode)
	admin := w.b.Attach("admin")
	world.ConnectClient(c, admin, "admin", "", nil)
	kall := world.Keygen(c, admin, lic.Master, "#/", "rwlsp", 0)
	kro := world.Keygen(c, admin, lic.Master, "#/", "r", 0)
	w.kAll = &model.KeyInfo{Name: "kAll", Key: kall, Decrypts: true, Contract: true, Perms: model.PermsOf("rwlsp"), Target: "#/"}
	w.kRO = &model.KeyInfo{Name: "kRO", Key: kro, Decrypts: true, Contract: true, Perms: model.PermsOf("r"), Target: "#/"}
	w.norm.Name("key", kall)
	w.norm.Name("key", kro)
	admin.Send(mqttc.Disconnect())
	world.Settle()

	// filters the victim may use (all under a/); the pool has XOR twins
	pool := []string{"a/b/", "a/x/y/", "a/y/x/", "a/b/b/x/", "a/x/", "a/+/", "a/b/a/"}
	if w.mode == "mqtt" {
		pool = append(pool, "a/#/", "a/b/#/")
	}

	// watchers
	w.will = w.b.Attach("will")
	world.ConnectClient(c, w.will, "will", "willwatcher", nil)
	w.pw = w.b.Attach("pw")
	world.ConnectClient(c, w.pw, "pw", "preswatcher", nil)
	w.other = w.b.Attach("other")
	world.ConnectClient(c, w.other, "other", "other", nil)
	w.will.Send(w.will.Subscribe(kall + "/w/"))
	presCh := "a/"
	if w.mode == "mqtt" {
		presCh = "a/#/"
	}
	yes := true
	r, _ := world.Request(c, w.pw, "presence", map[string]any{"key": kall, "channel": presCh, "status": false, "changes": &yes})
	if r == nil || r.Status != 200 {
		c.Harnessf("presence watcher: %+v", r)
	}
	var topics []string
	for _, f := range pool {
		topics = append(topics, kall+"/"+f)
	}
	w.other.Send(w.other.Subscribe(topics...))
	world.Settle()
	w.will.Recv()
	w.other.Recv()
	w.pw.Recv() // subscribe events of `other`
	w.baseTrie = w.trieKeys()
	w.baseConn = w.b.Svc.VerifConnections()

	// ---- generate the victim session --------------------------------------
	willKind := t.Choose(4) // 0 none, 1 authorised, 2 key without write permission, 3 wildcard will channel
	var will *mqttc.Will
	switch willKind {
	case 1:
		will = &mqttc.Will{Topic: kall + "/w/", Payload: []byte("WILL")}
	case 2:
		will = &mqttc.Will{Topic: kro + "/w/", Payload: []byte("WILL")}
	case 3:
		will = &mqttc.Will{Topic: kall + "/w/+/", Payload: []byte("WILL")}
	}
	tmp := mqttc.New("gen", nil)
	nops := t.Range(2, 7)
	var ops []c08Op
	held := map[string]bool{}
	for i := 0; i < nops; i++ {
		switch k := t.Choose(10); {
		case k < 5:
			n := t.Range(1, 3)
			var fs, tp []string
			for j := 0; j < n; j++ {
				f := pool[t.Choose(len(pool))]
				fs = append(fs, f)
				tp = append(tp, kall+"/"+f)
				held[f] = true
			}
			ops = append(ops, c08Op{kind: "sub", filters: fs, pkt: mqttc.Encode(tmp.Subscribe(tp...))})
		case k < 7:
			f := pool[t.Choose(len(pool))]
			if hk := sortedKeys(held); len(hk) > 0 && t.Chance(2, 3) {
				f = hk[t.Choose(len(hk))]
			}
			ops = append(ops, c08Op{kind: "unsub", filters: []string{f}, pkt: mqttc.Encode(tmp.Unsubscribe(kall + "/" + f))})
		case k < 8:
			body, _ := json.Marshal(map[string]any{"key": kall, "channel": "a/b/", "status": false, "changes": true})
			ops = append(ops, c08Op{kind: "pres", pkt: mqttc.Encode(tmp.Publish("emitter/presence/", body, false, false))})
		case k < 9:
			f := pool[t.Choose(3)]
			body, _ := json.Marshal(map[string]any{"name": "l1", "key": kall, "channel": f, "subscribe": true})
			ops = append(ops, c08Op{kind: "link", filters: []string{f}, pkt: mqttc.Encode(tmp.Publish("emitter/link/", body, false, false))})
		default:
			ops = append(ops, c08Op{kind: "pub", pkt: mqttc.Encode(tmp.Publish(kall+"/a/b/", []byte("hello"), false, false))})
		}
	}
	var desc []string
	for _, o := range ops {
		desc = append(desc, o.kind+fmt.Sprint(o.filters))
	}
	c.Logf("session will=%d ops=%v", willKind, desc)

	// enumerate. The username identifies the victim of each cut.
	stride, idleStride := 1, 1
	if c.Params["tier"] != "thorough" {
		idleStride = 4 // quick tier: the (expensive) idle ending at every 4th offset and at every packet boundary
		stride = 0
	}
	nontriv := false
	// the keep-alive the victim announces: none at all (a legal value), seconds, or the maximum
	keepalive := []uint16{60, 60, 0, 5, 65535}[t.Choose(5)]
	c.Logf("keep-alive %d", keepalive)
	build := func(user string) (stream []byte, bounds []int) {
		cp := mqttc.Connect("victim", user, will)
		cp.Keepalive = keepalive
		stream = mqttc.Encode(cp)
		bounds = append(bounds, len(stream))
		for _, o := range ops {
			stream = append(stream, o.pkt...)
			bounds = append(bounds, len(stream))
		}
		return
	}
	probe, pb := build("victim-0000")
	total := len(probe)
	isBound := map[int]int{} // offset -> number of complete packets
	for i, b := range pb {
		isBound[b] = i + 1
	}
	for cut := 0; cut <= total; cut++ {
		npk := 0
		for i, b := range pb {
			if b <= cut {
				npk = i + 1
			}
		}
		endings := []string{"close", "deadwrite"}
		_, atBound := isBound[cut]
		if stride == 1 || atBound || cut%idleStride == 0 {
			endings = append(endings, "idle")
		}
		if atBound || cut == 0 {
			// at a packet boundary the next bytes start a new packet: a malformed
			// header, a DISCONNECT or a packet that makes the handler panic
			endings = append(endings, "malformed", "disconnect", "panic")
		}
		for _, e := range endings {
			if w.oneCut(cut, npk, atBound, e, build, ops, willKind) {
				nontriv = true
			}
		}
	}
	if nontriv {
		c.NonTrivial()
	}
	c.Stats.Probes["cuts"] += w.cuts
	c.Stats.Steps += w.cuts
}

// oneCut runs a fresh victim connection that is fed `cut` bytes and then ends in way `ending`.
func (w *c08World) oneCut(cut, npk int, atBoundary bool, ending string, build func(string) ([]byte, []int), ops []c08Op, willKind int) bool {
	c := w.c
	w.cuts++
	w.victimN++
	user := fmt.Sprintf("victim-%04d", w.victimN%10000)
	stream, _ := build(user)
	v := w.b.Attach("victim")
	if ending == "deadwrite" {
		// the broker's writes to the victim start failing before its read loop
		// notices anything: packets up to the previous boundary are served
		// normally, the rest is processed with failing replies
		_, bounds := build(user)
		pb := 0
		for _, b := range bounds {
			if b < cut {
				pb = b
			}
		}
		v.Conn.Write(stream[:pb])
		world.Settle()
		w.pw.Recv() // what the watchers saw while the connection was healthy
		w.will.Recv()
		w.other.Recv()
		v.Conn.BreakPeerWrites()
		v.Conn.Write(stream[pb:cut])
		world.Settle()
	} else {
		v.Conn.Write(stream[:cut])
		world.Settle()
		w.pw.Recv()
		w.will.Recv()
		w.other.Recv()
	}

	// model: state after the first npk packets
	subs := map[string]bool{}
	connected := npk >= 1
	lateUnsub := "" // deadwrite: an UNSUBSCRIBE served after the write side died still tells presence watchers
	for i := 0; i < npk-1; i++ {
		o := ops[i]
		switch o.kind {
		case "sub", "link":
			for _, f := range o.filters {
				subs[f] = true
			}
		case "unsub":
			if ending == "deadwrite" && i == npk-2 && atBoundary && subs[o.filters[0]] {
				lateUnsub = o.filters[0]
			}
			delete(subs, o.filters[0])
		}
	}

	// the victim's entries must be in the trie now (sanity of the model, also a C02 style check)
	contract := w.b.Opts.Lic.Contract
	now := w.trieKeys()
	extra := 0
	for k := range now {
		if !w.baseTrie[k] {
			extra++
		}
	}

	// ---- the ending -------------------------------------------------------
	switch ending {
	case "deadwrite":
		// a delivery to the half-dead connection fails first, then the read side ends
		w.other.Send(w.other.Publish(w.kAll.Key+"/a/b/", []byte("pre"), false, false))
		world.Settle()
		v.Conn.Close()
		c.Fault("write-side-dead-first")
	case "close":
		v.Conn.Close()
		c.Fault("abrupt-close")
	case "malformed":
		v.Conn.Write([]byte{0xF7, 0xFF, 0xFF, 0xFF, 0xFF, 0x01})
		c.Fault("malformed-bytes")
	case "disconnect":
		v.Conn.Write(mqttc.Encode(mqttc.Disconnect()))
		c.Fault("clean-disconnect")
	case "panic":
		// a CONNECT whose body ends right after the protocol name: the decoder indexes past the end
		v.Conn.Write([]byte{0x10, 0x02, 0x00, 0x00})
		c.Fault("handler-panic")
	case "idle":
		// keep the watchers alive, then let only the victim's read deadline pass
		for _, k := range []*mqttc.Client{w.will, w.pw, w.other} {
			k.Send(mqttc.Ping())
		}
		world.Advance(c, 119*time.Second)
		for _, k := range []*mqttc.Client{w.will, w.pw, w.other} {
			k.Send(mqttc.Ping())
		}
		world.Advance(c, 2*time.Second)
		c.Fault("idle-timeout")
	}
	world.Settle()
	if ending == "panic" && npk >= 1 && false {
		_ = 0
	}
	v.Gone = true

	// ---- oracle -----------------------------------------------------------
	disc := fmt.Sprintf("ending=%s", ending)
	if !v.Conn.PeerClosed() {
		c.Check("leak", disc+" socket-open", "cut=%d ending=%s: the broker did not close the connection", cut, ending)
	}
	v.Conn.Close()
	// 1. trie back to baseline exactly
	after := w.trieKeys()
	var leaked, lost []string
	for k := range after {
		if !w.baseTrie[k] {
			leaked = append(leaked, w.norm.Apply(k))
		}
	}
	for k := range w.baseTrie {
		if !after[k] {
			lost = append(lost, w.norm.Apply(k))
		}
	}
	sort.Strings(leaked)
	sort.Strings(lost)
	tw := c08Twins(subs)
	if len(leaked) > 0 {
		c.Check("leak", disc+tw, "cut=%d/%d pkts=%d ending=%s: entries of the ended connection remain in the subscription index: %v (held %v)", cut, len(stream), npk, ending, leaked, sortedKeys(subs))
	}
	if len(lost) > 0 {
		c.Check("collateral", disc+tw, "cut=%d ending=%s: subscriptions of other connections vanished: %v", cut, ending, lost)
	}
	// 2. connection counter
	if n := w.b.Svc.VerifConnections(); n != w.baseConn {
		c.Check("counter", disc, "cut=%d ending=%s: connection counter %d, baseline %d", cut, ending, n, w.baseConn)
	}
	// 3. will
	wp, err := w.will.Recv()
	if err != nil {
		c.Failf("will-dup", "undecodable", "%v", err)
	}
	wills := 0
	for _, p := range wp {
		if pub, ok := p.(*packets.PublishPacket); ok && string(pub.Payload) == "WILL" {
			wills++
		}
	}
	// a panic ending replaces nothing: the malformed CONNECT never completes
	expWill := 0
	if connected && willKind == 1 {
		expWill = 1
	}
	switch {
	case wills < expWill:
		c.Check("will-missing", disc, "cut=%d ending=%s: last will not published (connected=%v)", cut, ending, connected)
	case wills > expWill && expWill == 0:
		c.Check("will-unauthorised", disc+fmt.Sprintf(" willKind=%d connected=%v", willKind, connected), "cut=%d ending=%s: %d will message(s) published although none is due (willKind=%d connected=%v)", cut, ending, wills, willKind, connected)
	case wills > expWill:
		c.Check("will-dup", disc, "cut=%d ending=%s: last will published %d times", cut, ending, wills)
	}
	// 4. presence watcher: one unsubscribe per subscription still held
	pp, err := w.pw.Recv()
	if err != nil {
		c.Failf("presence-dup", "undecodable", "%v", err)
	}
	evs, _ := presenceEvents(pp)
	got := map[string]int{}
	for _, e := range evs {
		if strings.HasSuffix(e, " "+user) {
			got[e]++
		}
	}
	for f := range subs {
		k := fmt.Sprintf("unsubscribe %s %s", f, user)
		switch got[k] {
		case 1:
		case 0:
			c.Check("presence-missing", disc+tw, "cut=%d ending=%s: presence watcher got no unsubscribe for %s (events %v)", cut, ending, f, evs)
		default:
			c.Check("presence-dup", disc+tw, "cut=%d ending=%s: presence watcher got %d unsubscribes for %s", cut, ending, got[k], f)
		}
		delete(got, k)
	}
	if lateUnsub != "" {
		k := fmt.Sprintf("unsubscribe %s %s", lateUnsub, user)
		if got[k] == 1 {
			delete(got, k)
		}
	}
	for k, n := range got {
		if strings.HasPrefix(k, "unsubscribe") && n > 0 {
			c.Check("presence-dup", disc+tw+" spurious", "cut=%d ending=%s: unexpected presence event %q x%d (held %v)", cut, ending, k, n, sortedKeys(subs))
		}
	}
	// 5. a later publish reaches the others (and only them): `other` holds the same filters
	w.other.Recv()
	w.other.Send(w.other.Publish(w.kAll.Key+"/a/b/", []byte(fmt.Sprintf("probe%d", w.cuts)), false, false))
	world.Settle()
	op, _ := w.other.Recv()
	n := 0
	for _, p := range op {
		if pub, ok := p.(*packets.PublishPacket); ok && string(pub.Payload) == fmt.Sprintf("probe%d", w.cuts) {
			n++
		}
	}
	if n != 1 {
		c.Check("collateral", disc+" probe", "cut=%d ending=%s: probe publish reached the unrelated subscriber %d times", cut, ending, n)
	}
	_ = contract
	_ = message.Ssid{}
	if w.cuts%97 == 0 {
		c.Logf("cut=%d npk=%d ending=%s held=%v wills=%d evs=%d extraBefore=%d", cut, npk, ending, sortedKeys(subs), wills, len(evs), extra)
	}
	c.State(fmt.Sprintf("%s held=%d will=%d conn=%v", ending, len(subs), willKind, connected))
	return len(subs) > 0
}

func c08Twins(subs map[string]bool) string {
	seen := map[uint32]string{}
	for _, f := range sortedKeys(subs) {
		h := message.Ssid(model.Ssid(0, model.Levels(f))).GetHashCode()
		if o, ok := seen[h]; ok {
			return fmt.Sprintf(" xor-twins(%s,%s)", o, f)
		}
		seen[h] = f
	}
	return ""
}
