package checks

import (
	"fmt"
	"os"
	"path/filepath"
	"sort"

	"github.com/emitter-io/emitter/internal/event"
	"github.com/emitter-io/emitter/internal/event/crdt"
	"github.com/emitter-io/emitter/internal/message"
	"github.com/emitter-io/emitter/internal/security"
	"github.com/emitter-io/emitter/verifsim/kernel"
)

// C04 — replicated state converges regardless of delivery order.
// C13 (part 1) — the delta returned by every merge is exactly what changed.
// Both run in the same world: 3-5 replicas of the real event.State exchanging
// single operations, deltas and full snapshots over a lossy, reordering,
// duplicating, partitioning payload network, with per-replica skewed clocks.

func init() {
	kernel.Register(&kernel.World{
		Property: "C04", Bubble: true, Run: runC04, RunsPerProc: 1500,
		Rule: "one run = 3-5 replicas of the real event.State (volatile, durable in memory, durable on file by tape) with per-replica clocks (skew, ties, backward jumps); tape-generated Add/Del of subscription, ban and connection events at any replica; payloads = single-operation states, deltas returned by Merge and full snapshots, each delivered directly or through Encode->DecodeState, with reorder, duplication, loss and partitions; after EVERY merge each replica's entries (add time, remove time, activity via Get/Has/Range/State.Has) are compared with the point-wise maximum over the operations it has transitively received; two final all-to-all rounds must make all replicas equal; non-trivial = >= 1 merge changed a replica; distinct = distinct canonical logs",
		Real:  []string{"event.State (Add, Del, Has, Merge, Encode, DecodeState)", "crdt.Volatile", "crdt.Durable (buntdb, freecache)", "event key/value codecs"},
		Stub:  []string{"payload network (in-memory bag with reorder/dup/loss/partition)", "replica clocks (crdt.Now seam)"},
		Assumptions: []string{"the bubble clock of a run spans far less than the 6 h tombstone expiry of the durable backend (the replicas' own stamps span up to weeks)", "payload bytes (event values) are not compared, only times and activity"},
	})
	kernel.Register(&kernel.World{
		Property: "C13", Bubble: true, Run: func(c *kernel.Ctx) { runC13(c) }, RunsPerProc: 60,
		Rule: "two campaigns chosen by the tape. (1) the C04 world, where for EVERY merge the returned delta is compared with the difference computed independently from the receiver's entries before and the payload: exactly the keys whose add or remove time advanced, only the advanced times, nil iff nothing advanced. (2) real cluster.Swarm instances on the simulated mesh: Notify calls, relays and periodic gossip are queued on one or several link senders while the senders are stalled; when a sender runs, the bytes it emits are decoded and must carry, per key, the maximum add and remove time over every payload that was queued on that link, also when the same payload object sits on several links; non-trivial = a merge with a non-empty delta / a send that coalesced >= 2 payloads; distinct = distinct canonical logs",
		Real:  []string{"event.State.Merge", "crdt.Volatile.Merge", "crdt.Durable.Merge", "cluster.Swarm (Notify, Gossip, OnGossip, OnGossipBroadcast, merge)"},
		Stub:  []string{"weaveworks/mesh (simmesh: sender slots transcribed from gossip.go: pending = pending.Merge(new))", "replica clocks (crdt.Now seam)"},
		Assumptions: []string{"the mesh sender keeps the return value of pending.Merge(new) as the new pending payload (gossip.go, pinned hash)"},
	})
}

type crEnt struct{ add, del int64 }

func (e crEnt) active() bool { return e.add != 0 && e.add >= e.del }

type crContent map[string]crEnt

func (c crContent) clone() crContent {
	o := crContent{}
	for k, v := range c {
		o[k] = v
	}
	return o
}

type crReplica struct {
	idx   int
	st    *event.State
	model crContent
	clock int64
	kind  string
}

type crPayload struct {
	from    int
	to      int
	obj     *event.State // direct object (consumed by one merge)
	bytes   []byte       // or encoded
	content crContent
	what    string
}

type crWorld struct {
	c        *kernel.Ctx
	reps     []*crReplica
	events   []event.Event
	names    []string
	keyOf    map[string]int // state key -> event index
	inflight []*crPayload
	cut      map[[2]int]bool
	checkDelta bool
	cur      *crReplica
	changed  bool
}

func evKey(ev event.Event) string {
	return fmt.Sprintf("%d|%s", event.VerifTypeOf(ev), ev.Key())
}

// readReplica reads a replica's entries; a replica that cannot even be walked (its entries point
// into memory that was recycled, say) has certainly not the entries it should have.
func (w *crWorld) readReplica(r *crReplica, when string) (out crContent) {
	defer func() {
		if x := recover(); x != nil {
			w.c.Check("entry", r.kind+" "+when+" unreadable", "r%d (%s) after %s: walking its entries panicked: %v", r.idx, r.kind, when, x)
			out = crContent{}
		}
	}()
	return readState(r.st)
}

func readState(st *event.State) crContent {
	out := crContent{}
	st.VerifAll(func(typ uint8, key string, v event.Value) {
		if len(v) < 16 { // not a value at all (recycled memory): shows as an entry nobody ever wrote
			out[fmt.Sprintf("%d|%s", typ, key)] = crEnt{-1, -1}
			return
		}
		out[fmt.Sprintf("%d|%s", typ, key)] = crEnt{v.AddTime(), v.DelTime()}
	})
	return out
}

func newCRWorld(c *kernel.Ctx, checkDelta bool) *crWorld {
	t := c.Tape
	w := &crWorld{c: c, keyOf: map[string]int{}, cut: map[[2]int]bool{}, checkDelta: checkDelta}
	ban1, ban2 := event.Ban("key-one"), event.Ban("key-two")
	w.events = []event.Event{
		&event.Subscription{Peer: 1, Conn: 5, Ssid: message.Ssid{1, 2, 3}, Channel: []byte("a/b/")},
		&event.Subscription{Peer: 1, Conn: 5, Ssid: message.Ssid{1, 3, 2}, Channel: []byte("b/a/")},
		&event.Subscription{Peer: 2, Conn: 9, Ssid: message.Ssid{1, 2, 3}, Channel: []byte("a/b/")},
		&ban1, &ban2,
		&event.Connection{Peer: 1, Conn: 5, ClientID: []byte("x")},
		&event.Connection{Peer: 2, Conn: 9, ClientID: []byte("y")},
	}
	w.names = []string{"sub1", "sub2", "sub3", "ban1", "ban2", "conn1", "conn2"}
	nev := t.Range(2, len(w.events))
	w.events, w.names = w.events[:nev], w.names[:nev]
	if t.Chance(1, 5) {
		// a large state: snapshots and combined deltas of more than a kilobyte (buffer sizes in the
		// decode path are crossed only by states of dozens of entries)
		for i := 0; i < 40; i++ {
			w.events = append(w.events, &event.Subscription{Peer: uint64(1 + i%3), Conn: security.ID(100 + i), Ssid: message.Ssid{1, uint32(10 + i%7), uint32(i)}, Channel: []byte(fmt.Sprintf("big/%d/%d/", i%7, i))})
			w.names = append(w.names, fmt.Sprintf("big%d", i))
		}
		c.Probe("large-state-over-1KiB")
	}
	for i, ev := range w.events {
		w.keyOf[evKey(ev)] = i
	}
	n := t.Range(3, 5)
	base := int64(1_700_000_000_000_000_000)
	for i := 0; i < n; i++ {
		r := &crReplica{idx: i, model: crContent{}, clock: base + int64(t.Choose(5))*1000}
		switch t.Choose(4) {
		case 0, 1:
			r.kind, r.st = "volatile", event.NewState("")
		case 2:
			r.kind, r.st = "durable-mem", event.NewState(":memory:")
		default:
			r.kind = "durable-file"
			dir := filepath.Join(c.Scratch, fmt.Sprintf("r%d", i))
			os.MkdirAll(dir, 0o755)
			r.st = event.NewState(dir)
		}
		w.reps = append(w.reps, r)
	}
	kinds := []string{}
	for _, r := range w.reps {
		kinds = append(kinds, r.kind)
	}
	c.Logf("replicas %v events %v", kinds, w.names)
	return w
}

func (w *crWorld) close() {
	for _, r := range w.reps {
		r.st.Close()
	}
}

// tick moves a replica's clock: tie, +1, forward, backward jump.
func (w *crWorld) tick(r *crReplica) {
	switch w.c.Tape.Choose(6) {
	case 0: // tie
		w.c.Fault("clock-tie")
	case 1:
		r.clock++
	case 2, 3:
		r.clock += int64(w.c.Tape.Range(2, 5000))
	case 4:
		r.clock -= int64(w.c.Tape.Range(1, 3000))
		w.c.Fault("clock-backward-jump")
	default:
		if w.c.Tape.Chance(1, 4) {
			// hours to days pass on this replica: entries and tombstones of very different ages live side by
			// side (the stamps are the replicas' own clocks; the durable backend ages its tombstones by the
			// bubble's clock, which does not move here)
			r.clock += int64(w.c.Tape.Range(5, 200)) * 3600 * 1_000_000_000
			w.c.Fault("clock-jump-hours")
			break
		}
		r.clock += 1_000_000
	}
}

func (w *crWorld) name(k string) string {
	if i, ok := w.keyOf[k]; ok {
		return w.names[i]
	}
	return fmt.Sprintf("?%q", k)
}

func (w *crWorld) fmtContent(c crContent) string {
	ks := make([]string, 0, len(c))
	for k := range c {
		ks = append(ks, k)
	}
	sort.Slice(ks, func(i, j int) bool { return w.name(ks[i]) < w.name(ks[j]) })
	s := ""
	for _, k := range ks {
		s += fmt.Sprintf(" %s(+%d,-%d)", w.name(k), c[k].add%1_000_000_000, c[k].del%1_000_000_000)
	}
	return s
}

// localOp performs Add/Del at a replica and emits the one-operation payload,
// exactly as Swarm.Notify does (state.Add(ev); op.Add(ev); broadcast op).
func (w *crWorld) localOp(r *crReplica) {
	t := w.c.Tape
	i := t.Choose(len(w.events))
	ev := w.events[i]
	add := t.Chance(3, 5)
	w.tick(r)
	now := r.clock
	crdt.Now = func() int64 { return now }
	op := event.NewState("")
	if add {
		r.st.Add(ev)
		op.Add(ev)
	} else {
		r.st.Del(ev)
		op.Del(ev)
	}
	k := evKey(ev)
	e := r.model[k]
	content := crContent{}
	if add {
		if now > e.add {
			e.add = now
		}
		content[k] = crEnt{add: now}
	} else {
		if now > e.del {
			e.del = now
		}
		content[k] = crEnt{del: now}
	}
	r.model[k] = e
	w.c.Logf("r%d %s %s @%d", r.idx, map[bool]string{true: "add", false: "del"}[add], w.names[i], now%1_000_000_000)
	w.verify(r, "local")
	// broadcast the operation to the others (fresh object or bytes per destination)
	enc := op.Encode()[0]
	for _, o := range w.reps {
		if o == r {
			continue
		}
		p := &crPayload{from: r.idx, to: o.idx, content: content.clone(), what: "op"}
		if t.Chance(1, 3) {
			fresh, err := event.DecodeState(enc)
			if err != nil {
				w.c.Failf("codec", "op-decode", "DecodeState of a one-operation state failed: %v", err)
			}
			p.obj = fresh // delivered "without serialisation" from the receiver's point of view
		} else {
			p.bytes = enc
		}
		w.inflight = append(w.inflight, p)
	}
}

// snapshot queues the full state of r for o (periodic gossip / link-up).
func (w *crWorld) snapshot(r, o *crReplica) {
	enc := r.st.Encode()[0]
	w.inflight = append(w.inflight, &crPayload{from: r.idx, to: o.idx, bytes: enc, content: r.model.clone(), what: "snapshot"})
	w.c.Logf("r%d snapshot -> r%d", r.idx, o.idx)
}

// deliver merges one payload at its destination and checks every rule.
func (w *crWorld) deliver(p *crPayload) {
	c := w.c
	r := w.reps[p.to]
	if w.cut[[2]int{p.from, p.to}] {
		c.Fault("partition-drop")
		c.Logf("drop (partition) %s r%d->r%d", p.what, p.from, p.to)
		return
	}
	other := p.obj
	if other == nil {
		var err error
		other, err = event.DecodeState(p.bytes)
		if err != nil {
			c.Failf("codec", "decode", "DecodeState failed for a %s payload: %v", p.what, err)
		}
		// the decoded payload must carry exactly what was put in (codec hop)
		if got := readState(other); !sameContent(got, p.content) {
			c.Failf("codec", p.what, "an encode/decode hop changed a %s payload: sent%s, decoded%s", p.what, w.fmtContent(p.content), w.fmtContent(got))
		}
	}
	before := r.model.clone()
	// expected delta and new state, computed independently
	expDelta := crContent{}
	for k, in := range p.content {
		cur := r.model[k]
		d := crEnt{}
		if in.add > cur.add {
			d.add, cur.add = in.add, in.add
		}
		if in.del > cur.del {
			d.del, cur.del = in.del, in.del
		}
		if d.add != 0 || d.del != 0 {
			expDelta[k] = d
		}
		if _, had := r.model[k]; had || d.add != 0 || d.del != 0 {
			r.model[k] = cur
		}
	}
	delta := r.st.Merge(other)
	c.Logf("r%d merges %s from r%d:%s => delta%s", r.idx, p.what, p.from, w.fmtContent(p.content), w.fmtContent(expDelta))
	if len(expDelta) > 0 {
		c.NonTrivial()
		w.changed = true
	}
	var gotDelta crContent
	if delta != nil {
		gotDelta = readState(delta.(*event.State))
	}
	if w.checkDelta {
		disc := r.kind
		switch {
		case delta == nil && len(expDelta) > 0:
			c.Check("delta-nil", disc, "merge at r%d (%s) advanced%s but returned a nil delta (state before%s, payload%s)", r.idx, r.kind, w.fmtContent(expDelta), w.fmtContent(before), w.fmtContent(p.content))
		case delta != nil && len(expDelta) == 0:
			c.Check("delta-nil", disc+" non-nil", "merge at r%d (%s) changed nothing but returned a non-nil delta%s", r.idx, r.kind, w.fmtContent(gotDelta))
		case delta != nil:
			for k, e := range expDelta {
				g, ok := gotDelta[k]
				if !ok {
					c.Check("delta-missing", disc, "delta lacks %s whose times advanced (expected%s, got%s)", w.name(k), w.fmtContent(expDelta), w.fmtContent(gotDelta))
				} else if g != e {
					c.Check("delta-times", disc, "delta carries (+%d,-%d) for %s, only the advanced times (+%d,-%d) are new", g.add, g.del, w.name(k), e.add, e.del)
				}
			}
			for k := range gotDelta {
				if _, ok := expDelta[k]; !ok {
					c.Check("delta-extra", disc, "delta contains %s which did not change the state (expected%s, got%s)", w.name(k), w.fmtContent(expDelta), w.fmtContent(gotDelta))
				}
			}
			// what travels onward is what the delta encodes to, not the object: the bytes must say the same
			wire := crContent{}
			for _, b := range delta.Encode() {
				dec, err := event.DecodeState(b)
				if err != nil {
					c.Check("delta-missing", disc+" wire", "the delta handed back by the merge does not decode again: %v", err)
					continue
				}
				for k, v := range readState(dec) {
					wire[k] = v
				}
			}
			for k, e := range expDelta {
				if g, ok := wire[k]; !ok || g != e {
					c.Check("delta-missing", disc+" wire", "the bytes the delta encodes to carry (+%d,-%d) for %s, the merge advanced (+%d,-%d) (expected%s, on the wire%s)", g.add, g.del, w.name(k), e.add, e.del, w.fmtContent(expDelta), w.fmtContent(wire))
				}
			}
			for k := range wire {
				if _, ok := expDelta[k]; !ok {
					c.Check("delta-extra", disc+" wire", "the bytes the delta encodes to contain %s which did not change the state (expected%s, on the wire%s)", w.name(k), w.fmtContent(expDelta), w.fmtContent(wire))
				}
			}
		}
	}
	w.verify(r, "merge")
	for _, o := range w.reps {
		if o != r {
			w.verify(o, "merge-elsewhere") // a merge must not disturb any other replica (aliasing)
		}
	}
	// relay the delta (as the gossip library does) to a tape-chosen subset
	if delta != nil && len(gotDelta) > 0 {
		content := gotDelta
		if w.checkDelta {
			content = expDelta
		}
		enc := delta.Encode()[0]
		direct := false
		for _, o := range w.reps {
			if o == r || o.idx == p.from || !c.Tape.Chance(1, 2) {
				continue
			}
			q := &crPayload{from: r.idx, to: o.idx, bytes: enc, content: content.clone(), what: "delta"}
			if !direct && c.Tape.Chance(1, 3) {
				// zero encode/decode hops: the very object Merge returned is merged elsewhere
				// (this is what the gossip library's send queue does with a relayed delta)
				direct = true
				q.obj, q.bytes, q.what = delta.(*event.State), nil, "delta-object"
				c.Probe("delta-object-relayed")
			}
			w.inflight = append(w.inflight, q)
		}
	}
}

func sameContent(a, b crContent) bool {
	if len(a) != len(b) {
		return false
	}
	for k, v := range a {
		if b[k] != v {
			return false
		}
	}
	return true
}

// verify compares a replica with its model through every read path.
func (w *crWorld) verify(r *crReplica, when string) {
	c := w.c
	if w.checkDelta {
		return // the C13 campaign checks deltas only; C04 owns state equality
	}
	got := w.readReplica(r, when)
	if !sameContent(got, r.model) {
		for k, e := range r.model {
			if got[k] != e {
				c.Check("entry", r.kind+" "+when, "r%d (%s) after %s: %s is (+%d,-%d), the maximum over the operations it received is (+%d,-%d)", r.idx, r.kind, when, w.name(k), got[k].add, got[k].del, e.add, e.del)
			}
		}
		for k, e := range got {
			if _, ok := r.model[k]; !ok {
				c.Check("entry", r.kind+" "+when+" phantom", "r%d (%s) holds %s (+%d,-%d) which it never received", r.idx, r.kind, w.name(k), e.add, e.del)
			}
		}
	}
	for i, ev := range w.events {
		k := evKey(ev)
		exp := r.model[k]
		v := r.st.VerifGet(ev)
		if v.AddTime() != exp.add || v.DelTime() != exp.del {
			c.Check("entry", r.kind+" "+when+" get", "r%d (%s) after %s: Get(%s) = (+%d,-%d), expected (+%d,-%d)", r.idx, r.kind, when, w.names[i], v.AddTime(), v.DelTime(), exp.add, exp.del)
		}
		if has := r.st.Has(ev); has != exp.active() {
			c.Check("active", r.kind+" "+when, "r%d (%s) after %s: Has(%s) = %v but its entry (+%d,-%d) is active=%v", r.idx, r.kind, when, w.names[i], has, exp.add, exp.del, exp.active())
		}
	}
	c.State(fmt.Sprintf("%s n=%d", r.kind, len(r.model)))
}

func runCRDT(c *kernel.Ctx, checkDelta bool) {
	defer func(old func() int64) { crdt.Now = old }(crdt.Now)
	t := c.Tape
	w := newCRWorld(c, checkDelta)
	defer w.close()
	steps := t.Range(10, 120)
	for s := 0; s < steps && !t.Exhausted(); s++ {
		c.Step()
		switch k := t.Choose(20); {
		case k < 7:
			w.localOp(w.reps[t.Choose(len(w.reps))])
		case k < 15 && len(w.inflight) > 0: // deliver any in-flight payload (reorder)
			i := t.Choose(len(w.inflight))
			p := w.inflight[i]
			if p.obj == nil && t.Chance(1, 6) {
				c.Fault("duplicate")
				c.Logf("duplicate delivery")
			} else {
				w.inflight = append(w.inflight[:i], w.inflight[i+1:]...)
			}
			if i != 0 {
				c.Fault("reorder")
			}
			w.deliver(p)
		case k < 16 && len(w.inflight) > 0: // loss
			i := t.Choose(len(w.inflight))
			c.Logf("lose %s r%d->r%d", w.inflight[i].what, w.inflight[i].from, w.inflight[i].to)
			w.inflight = append(w.inflight[:i], w.inflight[i+1:]...)
			c.Fault("loss")
		case k < 18:
			a, b := t.Choose(len(w.reps)), t.Choose(len(w.reps))
			if a != b {
				w.snapshot(w.reps[a], w.reps[b])
			}
		case k < 19:
			a, b := t.Choose(len(w.reps)), t.Choose(len(w.reps))
			if a != b {
				on := !w.cut[[2]int{a, b}]
				w.cut[[2]int{a, b}], w.cut[[2]int{b, a}] = on, on
				c.Logf("partition r%d|r%d = %v", a, b, on)
				if on {
					c.Fault("partition")
				}
			}
		default:
			w.tick(w.reps[t.Choose(len(w.reps))])
		}
	}
	// quiescence: heal, drop what is in flight, two all-to-all rounds of snapshots
	w.cut = map[[2]int]bool{}
	w.inflight = nil
	for round := 0; round < 2; round++ {
		for _, a := range w.reps {
			for _, b := range w.reps {
				if a != b {
					w.snapshot(a, b)
				}
			}
		}
		for len(w.inflight) > 0 {
			p := w.inflight[0]
			w.inflight = w.inflight[1:]
			if p.what == "delta" {
				continue
			}
			w.deliver(p)
		}
	}
	if !checkDelta {
		ref := w.readReplica(w.reps[0], "the final exchange")
		for _, r := range w.reps[1:] {
			if got := w.readReplica(r, "the final exchange"); !sameContent(ref, got) {
				c.Check("final", r.kind, "after two all-to-all exchanges r0 (%s) holds%s but r%d (%s) holds%s", w.reps[0].kind, w.fmtContent(ref), r.idx, r.kind, w.fmtContent(got))
			}
		}
	}
}

// runC04 picks the delivery-order campaign or the concurrent one (c04conc.go).
func runC04(c *kernel.Ctx) {
	if c.Params["campaign"] != "order" && (c.Params["campaign"] == "concurrent" || c.Tape.Chance(1, 4)) {
		runCRDTConcurrent(c)
		return
	}
	runCRDT(c, false)
}

// runC13 picks one of the two C13 campaigns.
func runC13(c *kernel.Ctx) {
	if c.Params["campaign"] == "concurrent" || (c.Params["campaign"] == "" && c.Tape.Chance(1, 6)) {
		c.Logf("campaign concurrent")
		runC13Concurrent(c)
		return
	}
	if c.Params["campaign"] == "delta" || c13Swarm == nil || c.Tape.Chance(1, 2) {
		c.Logf("campaign delta")
		runCRDT(c, true)
		return
	}
	c.Logf("campaign coalesce")
	c13Swarm(c)
}

// c13Swarm is installed by the coalescing campaign (c13.go).
var c13Swarm func(c *kernel.Ctx)
