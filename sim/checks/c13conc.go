package checks

import (
	"fmt"
	"sort"
	"strings"
	"sync"
	"time"

	"github.com/emitter-io/emitter/internal/event"
	"github.com/emitter-io/emitter/internal/message"
	"github.com/emitter-io/emitter/internal/security"
	"github.com/emitter-io/emitter/internal/verifauto"
	"github.com/emitter-io/emitter/internal/verifyield"
	"github.com/emitter-io/emitter/verifsim/kernel"
	"github.com/emitter-io/emitter/verifsim/world"
	"github.com/weaveworks/mesh"
)

// C13, concurrent campaign — the mesh library calls the Gossiper from one
// goroutine per link, so a broker with several neighbours merges several
// payloads at once. Each call must still hand back, for onward relay, exactly
// what it changed: "no new update is withheld from onward relay". Here 2-3
// goroutines each deliver one payload (OnGossip or OnGossipBroadcast) with 1-2
// updates nobody has seen yet to one real Swarm; they are interleaved by the
// tape at the boundaries of swarm.go and internal/event (a task may be parked
// inside its merge, holding the swarm's lock). Afterwards: every update is in
// the broker's state, and every call returned a delta that carries the updates
// its payload brought (all of them were new) with their times - nothing else.
func runC13Concurrent(c *kernel.Ctx) {
	defer func() { mesh.Net = nil }()
	t := c.Tape
	c.SleepToEpoch()
	dir := ":memory:"
	if t.Chance(1, 3) {
		dir = c.Scratch + "/state"
	}
	cl := world.NewCluster(c, 1, world.Licenses[2], func(i int, o *world.BrokerOpts) { o.StateDir = dir })
	defer cl.Close()
	sw := cl.Brokers[0].Svc.VerifSwarm()
	ntasks := t.Range(2, 3)
	type task struct {
		buf     []byte
		bcast   bool
		src     uint64
		content crContent
		ret     crContent
		nilRet  bool
		err     error
	}
	tasks := make([]*task, ntasks)
	all := crContent{}
	seq := 0
	for i := range tasks {
		tk := &task{bcast: t.Chance(1, 2), src: uint64(0x10 + i)}
		st := event.NewState("")
		for n := t.Range(1, 2); n > 0; n-- {
			seq++
			time.Sleep(time.Microsecond)
			ev := &event.Subscription{Peer: tk.src, Conn: security.ID(100 + seq), Ssid: message.Ssid{1, uint32(10 + t.Choose(2)), uint32(20 + t.Choose(2))}, Channel: []byte("x/y/")}
			if t.Chance(1, 4) {
				st.Del(ev)
			} else {
				st.Add(ev)
			}
		}
		tk.content = readState(st)
		tk.buf = st.Encode()[0]
		for k, v := range tk.content {
			all[k] = v
		}
		tasks[i] = tk
		c.Logf("task %d: %d new updates from peer %x via %s", i, len(tk.content), tk.src, map[bool]string{true: "OnGossipBroadcast", false: "OnGossip"}[tk.bcast])
	}
	c.NonTrivial()

	baton := kernel.NewBaton()
	baton.Auto = []string{"internal/service/cluster/swarm.go", "internal/event/"}
	baton.OnlySites = []string{"cluster.Swarm.merge:entry", "cluster.Swarm.merge:snapshot", "cluster.Swarm.merge:merged"}
	baton.ParkHolding = true
	verifyield.Hook = baton.Hook
	verifauto.Hook, verifauto.AcquireHook, verifauto.LockHook = baton.Hook, baton.AcquireHook, baton.LockHook
	restore := func() {
		verifyield.Hook = nil
		verifauto.Hook, verifauto.AcquireHook, verifauto.LockHook = nil, nil, nil
	}
	defer restore()
	baton.SetActive(true)
	defer baton.ReleaseAll()
	var mu sync.Mutex
	taskOf := map[uint64]int{}
	done := make(chan int, ntasks)
	for i, tk := range tasks {
		i, tk := i, tk
		go func() {
			mu.Lock()
			taskOf[kernel.Goid()] = i
			mu.Unlock()
			var d mesh.GossipData
			if tk.bcast {
				d, tk.err = sw.OnGossipBroadcast(mesh.PeerName(tk.src), tk.buf)
			} else {
				d, tk.err = sw.OnGossip(tk.buf)
			}
			if d == nil {
				tk.nilRet = true
			} else {
				tk.ret = stateContent(d)
			}
			done <- i
		}()
		world.Settle()
	}
	inside := false
	_, stuck := baton.Drive(t, world.Settle, func(p *kernel.Parked, runnable, waiting int) {
		mu.Lock()
		ti := taskOf[p.Goid]
		mu.Unlock()
		c.Logf("  task %d crosses %s (%d of %d can run)", ti, p.Site, runnable, waiting)
		if waiting > runnable && !inside {
			inside = true
			c.Probe("delivery-waits-for-a-merge-parked-inside-its-critical-section")
		}
		c.Fault("interleaving-at-mutex-boundary")
		c.Step()
	}, 3000)
	if stuck {
		c.Harnessf("C13 concurrent: %d tasks parked, none can run", baton.Waiting())
	}
	world.Settle()
	for f := 0; f < ntasks; f++ {
		select {
		case i := <-done:
			c.LogUnordered("task %d finished", i)
		default:
			c.Harnessf("C13 concurrent: a delivery neither finished nor parked")
		}
	}
	baton.ReleaseAll()
	restore()
	world.Settle()
	show := func(cc crContent) string {
		var ks []string
		for k, v := range cc {
			ks = append(ks, fmt.Sprintf("%x(+%d,-%d)", k, v.add%1_000_000_000, v.del%1_000_000_000))
		}
		sort.Strings(ks)
		return strings.Join(ks, " ")
	}
	have := readState(sw.VerifState())
	for k, v := range all {
		if have[k] != v {
			c.Check("delta-missing", "concurrent state", "after %d concurrent deliveries the broker's state holds (+%d,-%d) for an update that one of them brought as (+%d,-%d)", ntasks, have[k].add%1_000_000_000, have[k].del%1_000_000_000, v.add%1_000_000_000, v.del%1_000_000_000)
		}
	}
	for i, tk := range tasks {
		if tk.err != nil {
			c.Check("delta-missing", "concurrent error", "delivery %d of a well-formed payload failed: %v", i, tk.err)
		}
		if tk.nilRet {
			c.Check("delta-nil", "concurrent", "delivery %d brought %d updates nobody had seen, was merged concurrently with %d other deliveries and handed back nothing for onward relay", i, len(tk.content), ntasks-1)
			continue
		}
		for k, v := range tk.content {
			if tk.ret[k] != v {
				c.Check("delta-missing", "concurrent", "delivery %d: the delta handed back for onward relay lacks an update the payload brought: payload %s, delta %s", i, show(tk.content), show(tk.ret))
			}
		}
		for k := range tk.ret {
			if _, ok := tk.content[k]; !ok {
				c.Check("delta-extra", "concurrent", "delivery %d: the delta handed back carries an entry its payload did not bring: payload %s, delta %s", i, show(tk.content), show(tk.ret))
			}
		}
	}
	c.State(fmt.Sprintf("concurrent deliveries=%d updates=%d", ntasks, len(all)))
}
