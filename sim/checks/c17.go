package checks

import (
	"bytes"
	"fmt"
	"net"
	"net/http"
	"sync"
	"time"

	gws "github.com/gorilla/websocket"
	"github.com/emitter-io/emitter/internal/network/listener"
	"github.com/emitter-io/emitter/internal/network/websocket"
	"github.com/emitter-io/emitter/verifsim/kernel"
	"github.com/emitter-io/emitter/verifsim/simnet"
	"github.com/emitter-io/emitter/verifsim/world"
)

// C17 — transport adapters deliver the byte stream unchanged.

func init() {
	kernel.Register(&kernel.World{
		Property: "C17", Bubble: true, Run: runC17, RunsPerProc: 300, RunTimeout: 120 * time.Second,
		Rule: "one run = one simulated connection through the real protocol-sniffing listener (real mux Listener, HTTP and catch-all matchers, listener.Conn with its sniffer, write queue, rate limiter and 1 s flush timer) or, by tape, through the real net/http server + gorilla upgrade + websocketTransport. Inbound: a tape-generated stream (random bytes, sometimes starting with a full or partial HTTP method) is cut into tape-chosen socket writes / WebSocket messages (empty, text, fragmented through a tiny write buffer, pings in between) and read on the far side of the adapter with tape-chosen buffer sizes. Outbound: tape-chosen writes against tape-chosen clock advances (direct, rate-limited and queued, flush-on-write, timer flush; flush rate 1..1000 by tape). Oracle at quiescence after a final >= 2 s advance: bytes out = bytes in, in order, once, in both directions. non-trivial = >= 64 bytes travelled each way; distinct = distinct canonical logs",
		Real:  []string{"listener.Listener (Serve, serve, Match)", "listener.Conn (sniffer, Write, enqueue, Flush, flush timer)", "listener matchers (patricia tree)", "kelindar/rate limiter", "websocketTransport (Read, Write)", "gorilla/websocket server side, net/http server"},
		Stub:  []string{"socket (simnet)", "clock (synctest)", "the reader behind the adapter is the harness (buffer sizes free)", "WebSocket client = gorilla client on simnet"},
		Assumptions: []string{"one writer at a time on the outbound path (concurrent writers are C10)"},
	})
}

type collector struct {
	mu   sync.Mutex
	buf  []byte
	err  error
	done bool
}

func (c *collector) readAll(r interface{ Read([]byte) (int, error) }, sizes []int) {
	i := 0
	empty := 0
	for {
		b := make([]byte, sizes[i%len(sizes)])
		i++
		n, err := r.Read(b)
		c.mu.Lock()
		c.buf = append(c.buf, b[:n]...)
		c.mu.Unlock()
		if n == 0 && err == nil {
			if empty++; empty > 10000 {
				err = fmt.Errorf("no progress")
			}
		} else {
			empty = 0
		}
		if err != nil {
			c.mu.Lock()
			c.err, c.done = err, true
			c.mu.Unlock()
			return
		}
	}
}

func (c *collector) bytes() []byte {
	c.mu.Lock()
	defer c.mu.Unlock()
	return append([]byte(nil), c.buf...)
}

func genStream(c *kernel.Ctx, max int) []byte {
	t := c.Tape
	n := []int{0, 1, 3, 7, 8, 9, 40, 300, 2000, max}[t.Choose(10)]
	b := make([]byte, n)
	x := uint32(t.Choose(1 << 30))
	for i := range b {
		x = x*1664525 + 1013904223
		b[i] = byte(x >> 24)
	}
	switch t.Choose(6) {
	case 0:
		b = append([]byte("GET / HTTP/1.1\r\n"), b...)
	case 1:
		b = append([]byte("POS"), b...)
	case 2:
		b = append([]byte("CONNECT"), b...)
	case 3:
		b = append([]byte{0x10, 0x0c, 0, 4, 'M', 'Q', 'T', 'T'}, b...)
	}
	return b
}

func firstDiff(a, b []byte) int {
	for i := 0; i < len(a) && i < len(b); i++ {
		if a[i] != b[i] {
			return i
		}
	}
	if len(a) != len(b) {
		return min(len(a), len(b))
	}
	return -1
}

func runC17(c *kernel.Ctx) {
	c.SleepToEpoch()
	if c.Tape.Chance(1, 3) {
		runC17WebSocket(c)
	} else {
		runC17Listener(c)
	}
}

func runC17Listener(c *kernel.Ctx) {
	t := c.Tape
	rate := []int{1, 2, 5, 60, 1000}[t.Choose(5)]
	root := simnet.NewListener()
	l := listener.VerifNewListener(root, listener.Config{FlushRate: rate})
	l.SetReadTimeout(120 * time.Second)
	// the matcher set: by tape 0-2 more peeking matchers ahead of the broker's own two (prefixes shorter
	// and longer than what the HTTP matcher peeks), so that a connection is replayed to several matchers
	// that each read a different number of bytes before the accepting one gets the stream
	extra := []struct {
		name string
		m    listener.Matcher
		pre  string
	}{
		{"p-ok", listener.MatchPrefix("ok"), "ok"},
		{"p-long", listener.MatchPrefix("0123456789abcdef"), "0123456789abcdeX"},
		{"p-x", listener.MatchPrefix("x", "xyz", "xyzzyxyzzy"), "xyzzyxyzzZ"},
	}
	matchers := map[string]net.Listener{}
	var order []string
	var pres []string
	for _, e := range extra {
		if t.Chance(1, 4) {
			matchers[e.name] = l.Match(e.m)
			order = append(order, e.name)
			pres = append(pres, e.pre, e.pre[:len(e.pre)-1], e.pre[:1])
		}
	}
	matchers["http"] = l.Match(listener.MatchHTTP())
	matchers["any"] = l.Match(listener.MatchAny())
	order = append(order, "http", "any")
	go l.Serve()
	defer l.Close()
	accepted := make(chan net.Conn, 8)
	which := make(chan string, 8)
	for _, name := range order {
		name, ml := name, matchers[name]
		go func() {
			if conn, err := ml.Accept(); err == nil {
				which <- name
				accepted <- conn
			}
		}()
	}
	cl := root.Dial("client")
	in := genStream(c, 8000)
	if len(pres) > 0 {
		c.Probe("extra-peeking-matchers")
		if t.Chance(2, 3) { // streams that start like, or almost like, what the extra matchers look for
			in = append([]byte(pres[t.Choose(len(pres))]), in...)
		}
	}
	c.Logf("listener rate=%d matchers=%v in=%d bytes", rate, order, len(in))
	sizes := make([]int, 8)
	for i := range sizes {
		sizes[i] = []int{1, 2, 7, 8, 9, 64, 1024, 4096}[t.Choose(8)]
	}
	col := &collector{}
	var srv net.Conn
	started := false
	tryStart := func() {
		if started {
			return
		}
		select {
		case srv = <-accepted:
			started = true
			c.Logf("matched by %s", <-which)
			go col.readAll(srv, sizes)
		default:
		}
	}
	// inbound: chunked writes
	var shape []int
	for off := 0; off < len(in); {
		n := []int{1, 1, 2, 3, 7, 8, 9, 100, 1000, 8000}[t.Choose(10)]
		if off+n > len(in) {
			n = len(in) - off
		}
		cl.Write(in[off : off+n])
		off += n
		shape = append(shape, n)
		c.Fault("chunked-read")
		world.Settle()
		tryStart()
		if t.Chance(1, 10) {
			world.Advance(c, []time.Duration{time.Millisecond, time.Second}[t.Choose(2)])
		}
	}
	world.Settle()
	tryStart()
	c.Logf("inbound chunks %v read sizes %v", shape, sizes)
	// outbound (only once the connection has been matched)
	var out []byte
	client := &collector{}
	go client.readAll(cl, []int{4096})
	if started {
		nw := t.Range(0, 40)
		for i := 0; i < nw; i++ {
			chunk := genStream(c, 9000)
			if len(chunk) == 0 {
				continue
			}
			if n, err := srv.Write(chunk); err != nil {
				c.Failf("out", "write-error", "Write returned %d, %v", n, err)
			}
			out = append(out, chunk...)
			k := t.Choose(6)
			switch k {
			case 0:
				world.Advance(c, time.Millisecond)
			case 1:
				world.Advance(c, 200*time.Millisecond)
			case 2:
				world.Advance(c, 1100*time.Millisecond)
			}
			c.Logf("write %d then %d", len(chunk), k)
		}
		c.Probe("outbound-writes")
	}
	closing := ""
	if started && t.Chance(1, 3) {
		// the server side closes the connection right after its last write (an error reply followed by a
		// close, a broker shutting down): what it wrote before the close is on its way like on any socket
		srv.Close()
		world.Settle()
		closing = " closed-after-last-write"
		c.Fault("server-close-right-after-write")
	}
	world.Advance(c, 1100*time.Millisecond)
	world.Advance(c, 1100*time.Millisecond)
	if !started {
		// fewer bytes than the matchers want: they decide at end of stream
		cl.Close()
		world.Settle()
		tryStart()
		world.Settle()
		if !started && len(in) > 0 {
			c.Check("in", "never-matched", "a %d byte stream was never handed to any protocol handler", len(in))
		}
	}
	got := col.bytes()
	if !started {
		return
	}
	if d := firstDiff(in, got); d >= 0 && !(len(got) <= len(in) && d == len(got) && !col.done && false) {
		c.Check("in", fmt.Sprintf("len=%d", min(len(in), 10)), "bytes read through the listener differ from the bytes sent at offset %d (sent %d bytes, read %d): sent % x.. read % x..", d, len(in), len(got), clip(in, d), clip(got, d))
	}
	if d := firstDiff(out, client.bytes()); d >= 0 {
		c.Check("out", fmt.Sprintf("rate=%d%s", rate, closing), "bytes received by the client differ from the bytes written at offset %d (written %d, received %d)%s", d, len(out), len(client.bytes()), closing)
	}
	if len(in) >= 64 && len(out) >= 64 {
		c.NonTrivial()
	}
	c.State(fmt.Sprintf("rate=%d in=%d out=%d", rate, min(len(in), 9), min(len(out)/1000, 9)))
	srv.Close()
	cl.Close()
}

func clip(b []byte, at int) []byte {
	lo, hi := at-4, at+8
	if lo < 0 {
		lo = 0
	}
	if hi > len(b) {
		hi = len(b)
	}
	if lo > hi {
		lo = hi
	}
	return b[lo:hi]
}

func runC17WebSocket(c *kernel.Ctx) {
	t := c.Tape
	root := simnet.NewListener()
	l := listener.VerifNewListener(root, listener.Config{FlushRate: []int{1, 60, 1000}[t.Choose(3)]})
	l.SetReadTimeout(120 * time.Second)
	httpL := l.Match(listener.MatchHTTP())
	anyL := l.Match(listener.MatchAny())
	_ = anyL
	upgraded := make(chan net.Conn, 1)
	srv := &http.Server{Handler: http.HandlerFunc(func(w http.ResponseWriter, r *http.Request) {
		if ws, ok := websocket.TryUpgrade(w, r); ok {
			upgraded <- ws
		}
	})}
	go srv.Serve(httpL)
	go l.Serve()
	defer l.Close()
	wbuf := []int{16, 64, 4096}[t.Choose(3)]
	dialer := gws.Dialer{
		NetDial:         func(network, addr string) (net.Conn, error) { return root.Dial("wsclient"), nil },
		WriteBufferSize: wbuf,
		Subprotocols:    []string{"mqttv3.1"},
	}
	type dialRes struct {
		c   *gws.Conn
		err error
	}
	dr := make(chan dialRes, 1)
	go func() {
		cc, _, err := dialer.Dial("ws://broker/", nil)
		dr <- dialRes{cc, err}
	}()
	world.Settle()
	var client *gws.Conn
	select {
	case r := <-dr:
		if r.err != nil {
			c.Harnessf("websocket dial: %v", r.err)
		}
		client = r.c
	default:
		c.Harnessf("websocket handshake did not complete")
	}
	var transport net.Conn
	select {
	case transport = <-upgraded:
	default:
		c.Harnessf("no upgraded connection")
	}
	c.Logf("websocket wbuf=%d", wbuf)
	sizes := make([]int, 8)
	for i := range sizes {
		sizes[i] = []int{1, 2, 7, 64, 1024, 4096, 65536, 3}[t.Choose(8)]
	}
	col := &collector{}
	go col.readAll(transport, sizes)
	// inbound: messages of tape-chosen sizes, fragmented by the small write buffer
	var in []byte
	nm := t.Range(0, 30)
	for i := 0; i < nm; i++ {
		switch k := t.Choose(10); {
		case k < 6:
			b := genStream(c, 5000)
			mt := gws.BinaryMessage
			if t.Chance(1, 4) {
				mt = gws.TextMessage
			}
			if err := client.WriteMessage(mt, b); err != nil {
				c.Harnessf("client write: %v", err)
			}
			in = append(in, b...)
			c.Logf("ws message type=%d len=%d", mt, len(b))
			if len(b) > wbuf {
				c.Fault("fragmented-message")
			}
		case k < 7:
			client.WriteMessage(gws.BinaryMessage, nil)
			c.Fault("empty-message")
		case k < 9:
			client.WriteControl(gws.PingMessage, []byte("hi"), time.Now().Add(time.Second))
			c.Fault("control-frame-between")
		default:
			world.Advance(c, time.Millisecond)
		}
		if t.Chance(1, 2) {
			world.Settle()
		}
	}
	world.Settle()
	// outbound: one Write per chunk
	clientCol := &collector{}
	go func() {
		for {
			_, b, err := client.ReadMessage()
			clientCol.mu.Lock()
			clientCol.buf = append(clientCol.buf, b...)
			clientCol.mu.Unlock()
			if err != nil {
				return
			}
		}
	}()
	var out []byte
	nw := t.Range(0, 30)
	for i := 0; i < nw; i++ {
		chunk := genStream(c, 3000)
		if n, err := transport.Write(chunk); err != nil || n != len(chunk) {
			c.Failf("out", "write-error", "Write returned %d, %v for %d bytes", n, err, len(chunk))
		}
		out = append(out, chunk...)
		c.Logf("ws write %d", len(chunk))
		if t.Chance(1, 4) {
			world.Advance(c, []time.Duration{time.Millisecond, 300 * time.Millisecond, 1100 * time.Millisecond}[t.Choose(3)])
		}
	}
	world.Advance(c, 1100*time.Millisecond)
	world.Advance(c, 1100*time.Millisecond)
	if d := firstDiff(in, col.bytes()); d >= 0 {
		c.Check("in", "websocket", "bytes read through the WebSocket adapter differ from the payload bytes sent at offset %d (sent %d, read %d)", d, len(in), len(col.bytes()))
	}
	if d := firstDiff(out, clientCol.bytes()); d >= 0 {
		c.Check("out", "websocket", "bytes received by the WebSocket client differ from the bytes written at offset %d (written %d, received %d)", d, len(out), len(clientCol.bytes()))
	}
	if len(in) >= 64 && len(out) >= 64 {
		c.NonTrivial()
	}
	c.State(fmt.Sprintf("ws wbuf=%d in=%d out=%d", wbuf, min(len(in)/1000, 9), min(len(out)/1000, 9)))
	client.Close()
	transport.Close()
	srv.Close()
	_ = bytes.Equal
}
