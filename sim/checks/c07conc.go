package checks

import (
	"fmt"
	"path/filepath"
	"sort"
	"strings"
	"time"

	"github.com/eclipse/paho.mqtt.golang/packets"
	"github.com/emitter-io/emitter/internal/verifauto"
	"github.com/emitter-io/emitter/verifsim/kernel"
	"github.com/emitter-io/emitter/verifsim/model"
	"github.com/emitter-io/emitter/verifsim/mqttc"
	"github.com/emitter-io/emitter/verifsim/world"
)

// C07, concurrent campaign — "... is sent the last N stored matching messages
// before its SUBACK and before any live message". The sequential campaigns can
// only see the first half of that sentence: a live message needs somebody who
// publishes WHILE the subscription is being served. Here a few messages are
// stored on one channel (prefix, sequential), then one connection writes a
// SUBSCRIBE with last=N while another writes 1-3 publishes on that channel; the
// two connection goroutines are interleaved at the boundaries tools/autoyield
// put around the mutex operations of the trie, the pubsub service and
// broker/conn.go.
//
// What can be said soundly about the subscriber's stream:
//   - a message of the prefix was complete before the SUBSCRIBE was written, so
//     it can only arrive as part of the replay: it must arrive before the SUBACK
//     (rule replay-after-ack), at most once (replay-set) and - when none of the
//     concurrent publishes is stored - exactly the last N of them must arrive;
//   - a concurrent publish WITHOUT ttl and retain flag is never stored, so it
//     can only arrive live: if one of them precedes a prefix message in the
//     stream, a live message overtook the replay (rule replay-after-live);
//   - a concurrent publish arrives at most once as a live message; one that is
//     stored may in addition be part of the replay (left open);
//   - afterwards the subscription is in force: a probe publish arrives once.
func runC07Concurrent(c *kernel.Ctx) {
	t := c.Tape
	c.SleepToEpoch()
	lic := world.Licenses[t.Choose(3)]
	opts := world.BrokerOpts{Lic: lic, Cluster: t.Chance(1, 2), NodeName: "00:00:00:00:00:01", Advertise: "10.0.0.1:4000", StateDir: ":memory:", Storage: "inmemory", Retain: 600}
	if t.Chance(1, 3) {
		opts.Storage, opts.StorageDir = "ssd", filepath.Join(c.Scratch, "store")
	}
	b := world.StartBroker(c, opts)
	defer b.Close()
	admin := b.Attach("admin")
	world.ConnectClient(c, admin, "admin", "", nil)
	key := world.Keygen(c, admin, lic.Master, "#/", "rwls", 0)
	sub := b.Attach("sub")
	world.ConnectClient(c, sub, "sub", "", nil)
	np := t.Range(1, 2)
	var pubs []*mqttc.Client
	for i := 0; i < np; i++ {
		p := b.Attach(fmt.Sprintf("pub%d", i))
		world.ConnectClient(c, p, fmt.Sprintf("pub%d", i), "", nil)
		pubs = append(pubs, p)
	}
	ch := []string{"a/", "a/b/", "b/a/b/"}[t.Choose(3)]
	c.Logf("concurrent campaign: store=%s cluster=%v lic=v%d channel=%s publishers=%d", opts.Storage, opts.Cluster, lic.Ver, ch, np)

	// ---- prefix: k stored messages, at least one second apart
	k := t.Range(1, 4)
	var prefix []string
	for i := 0; i < k; i++ {
		world.Advance(c, time.Duration(1000+t.Range(0, 1500))*time.Millisecond)
		pl := fmt.Sprintf("stored%d", i)
		topic := key + "/" + ch + "?ttl=600"
		retain := false
		if t.Chance(1, 3) {
			topic, retain = key+"/"+ch, true
		}
		admin.Send(admin.Publish(topic, []byte(pl), retain, false))
		world.Settle()
		prefix = append(prefix, pl)
		c.Logf("prefix: stored %s on %s (retain=%v)", pl, ch, retain)
	}
	admin.Recv()
	world.Advance(c, time.Duration(1000+t.Range(0, 1500))*time.Millisecond)

	rounds := t.Range(1, 2)
	for r := 0; r < rounds; r++ {
		last := t.Range(1, k+1)
		sub.Recv()
		baton := kernel.NewBaton()
		baton.Auto = []string{"internal/message/", "internal/service/pubsub/", "internal/broker/conn.go"}
		baton.AutoSkip = []string{":Trie.Count:"}
		verifauto.Hook, verifauto.AcquireHook, verifauto.LockHook = baton.Hook, baton.AcquireHook, baton.LockHook
		restore := func() { verifauto.Hook, verifauto.AcquireHook, verifauto.LockHook = nil, nil, nil }
		baton.SetActive(true)
		// the subscriber writes its SUBSCRIBE; its goroutine parks at its first boundary
		sub.Write(mqttc.Encode(sub.Subscribe(fmt.Sprintf("%s/%s?last=%d", key, ch, last))))
		world.Settle()
		// the publishers write their publishes
		liveOnly := map[string]bool{}   // concurrent, never stored
		liveStored := map[string]bool{} // concurrent, stored
		for pi, p := range pubs {
			var buf []byte
			for n := t.Range(1, 3); n > 0; n-- {
				pl := fmt.Sprintf("live-%d-%d-%d", r, pi, n)
				topic := key + "/" + ch
				if t.Chance(1, 4) {
					topic += "?ttl=600"
					liveStored[pl] = true
				} else {
					liveOnly[pl] = true
				}
				buf = append(buf, mqttc.Encode(p.Publish(topic, []byte(pl), false, false))...)
				c.Logf("round %d: pub%d publishes %s on %s (stored=%v) while the SUBSCRIBE last=%d is served", r, pi, pl, ch, liveStored[pl], last)
			}
			p.Write(buf)
			world.Settle()
		}
		c.NonTrivial()
		_, stuck := baton.Drive(t, world.Settle, func(p *kernel.Parked, runnable, waiting int) {
			c.Logf("  a connection goroutine crosses %s (%d of %d can run)", p.Site, runnable, waiting)
			c.Fault("interleaving-at-mutex-boundary")
			c.Step()
		}, 4000)
		if stuck {
			restore()
			c.Harnessf("C07 concurrent: %d tasks parked, none can run", baton.Waiting())
		}
		baton.ReleaseAll()
		restore()
		world.Settle()
		for _, p := range pubs {
			p.Recv()
		}
		pk, err := sub.Recv()
		if err != nil {
			c.Failf("replay-set", "undecodable", "subscriber stream: %v", err)
		}
		var stream []string
		acked := -1
		for _, x := range pk {
			switch v := x.(type) {
			case *packets.SubackPacket:
				acked = len(stream)
			case *packets.PublishPacket:
				if v.TopicName != "emitter/error/" {
					stream = append(stream, string(v.Payload))
				}
			}
		}
		c.Logf("round %d: subscriber stream %v, SUBACK after %d of them", r, stream, acked)
		if acked < 0 {
			c.Check("replay-order", "no-suback", "no SUBACK after the subscription (concurrent campaign)")
		}
		isPrefix := map[string]bool{}
		for _, p := range prefix {
			isPrefix[p] = true
		}
		count := map[string]int{}
		firstLiveOnly := -1
		for i, s := range stream {
			count[s]++
			if liveOnly[s] && firstLiveOnly < 0 {
				firstLiveOnly = i
			}
			if isPrefix[s] {
				if i >= acked && acked >= 0 {
					c.Check("replay-after-ack", "concurrent", "stored message %s arrived after the SUBACK (stream %v, SUBACK at %d)", s, stream, acked)
				}
				if firstLiveOnly >= 0 {
					c.Probe("live-message-overtook-replay")
					c.Check("replay-after-live", "concurrent-publisher", "stored message %s was replayed after the live message %s: the subscription was already live while the replay was still being read and sent (stream %v)", s, stream[firstLiveOnly], stream)
				}
			}
			if !isPrefix[s] && !liveOnly[s] && !liveStored[s] {
				c.Check("replay-set", "concurrent-foreign", "the subscriber received %s, which nobody published in this round (stream %v)", s, stream)
			}
		}
		for s, n := range count {
			if (isPrefix[s] || liveOnly[s]) && n > 1 {
				c.Check("replay-set", "concurrent-dup", "%s arrived %d times (stream %v)", s, n, stream)
			}
			if liveStored[s] && n > 2 {
				c.Check("replay-set", "concurrent-dup", "%s arrived %d times (once live and once replayed at most; stream %v)", s, n, stream)
			}
		}
		if len(liveStored) == 0 {
			// nothing else was stored meanwhile: the replay is exactly the last N of the prefix
			want := append([]string(nil), prefix...)
			if len(want) > last {
				want = want[len(want)-last:]
			}
			var got []string
			for _, s := range stream {
				if isPrefix[s] {
					got = append(got, s)
				}
			}
			if strings.Join(got, ",") != strings.Join(want, ",") {
				gs, ws := append([]string(nil), got...), append([]string(nil), want...)
				sort.Strings(gs)
				sort.Strings(ws)
				rule := "replay-order"
				if strings.Join(gs, ",") != strings.Join(ws, ",") {
					rule = "replay-set"
				}
				c.Check(rule, "concurrent", "subscription with last=%d served while %d publishes arrived: replayed %v, expected %v", last, len(liveOnly), got, want)
			}
		} else {
			c.Probe("concurrent-stored-publish")
			for pl := range liveStored {
				prefix = append(prefix, pl) // stored from now on (order among them is by time; same second: free)
			}
			sort.Strings(prefix[k:])
			k = len(prefix)
		}
		if firstLiveOnly >= 0 && (acked < 0 || firstLiveOnly < acked) {
			c.Probe("live-message-before-suback")
		}
		// ---- the subscription is in force now
		probe := fmt.Sprintf("probe-%d", r)
		admin.Send(admin.Publish(key+"/"+ch, []byte(probe), false, false))
		world.Settle()
		admin.Recv()
		pk, _ = sub.Recv()
		n := 0
		for _, x := range pk {
			if v, ok := x.(*packets.PublishPacket); ok && string(v.Payload) == probe {
				n++
			}
		}
		if n != 1 {
			c.Check("replay-set", "concurrent-probe", "after the concurrent round the subscriber received the probe publish %d times", n)
		}
		sub.Send(sub.Unsubscribe(key + "/" + ch))
		world.Settle()
		sub.Recv()
		c.State(fmt.Sprintf("conc last=%d k=%d liveOnly=%d liveStored=%d", last, min(k, 5), len(liveOnly), len(liveStored)))
		world.Advance(c, time.Duration(1000+t.Range(0, 1500))*time.Millisecond)
		if len(liveStored) > 0 {
			break // same-second order among concurrently stored messages is free: no second round on top of it
		}
	}
	_ = model.Join
}
