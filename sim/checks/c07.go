package checks

import (
	"fmt"
	"path/filepath"
	"sort"
	"strings"
	"time"

	"github.com/eclipse/paho.mqtt.golang/packets"
	"github.com/emitter-io/emitter/verifsim/kernel"
	"github.com/emitter-io/emitter/verifsim/model"
	"github.com/emitter-io/emitter/verifsim/mqttc"
	"github.com/emitter-io/emitter/verifsim/world"
)

// C07 — messages are retained and replayed exactly as requested.

func init() {
	kernel.Register(&kernel.World{
		Property: "C07", Bubble: true, Run: runC07, RunsPerProc: 60, RunTimeout: 300 * time.Second,
		Rule: "one run = one real broker with the in-memory or disk store (retention 30 s .. 30 days by tape) and 2-4 clients; tape-generated publishes (retain flag, ?ttl=N incl. 0, keys with/without the store permission, nested channels over {a,b}), last wills with/without retain fired by closing the connection, clock advances that expire some messages, and later subscriptions (keys with/without the load permission, ?last=0/1/N, from/until windows, '+' filters). The packets a client receives between its SUBSCRIBE and the SUBACK must be exactly the expected replay (last N stored, live, matching messages in non-decreasing time) and a publish must be stored iff (ttl>0 or retain) and the key may store, once, with the requested ttl (retain = configured retention, checked through expiry). 1 run in 6 = the cluster campaign: 2-3 brokers with their own stores on the simulated mesh, publishes with a ttl on any of them (one per second), fresh clients subscribing with last=N on any of them: the replay must be the last N stored matching messages of all stores (the survey over the mesh is pumped by the simulator), oldest first, before the SUBACK. non-trivial = >= 1 subscription with a non-empty expected replay; distinct = distinct canonical logs",
		Real:  []string{"broker.Service, broker.Conn", "pubsub.OnPublish / OnSubscribe / OnLastWill", "storage.SSD / InMemory (badger)", "security.ParseChannel options (ttl, last, from, until)", "Service.Authorize"},
		Stub:  []string{"client sockets (simnet)", "weaveworks/mesh (simmesh, single node)", "clock (synctest)"},
		Assumptions: []string{"a live publish races a replay only in the concurrent campaign (1 run in 6), where the connection goroutines are interleaved at mutex boundaries", "no query lands in the very second a message expires", "last values above 1000 belong to C09"},
	})
}

type c07Msg struct {
	levels  []string
	payload string
	t       int64
	expires time.Time
	seq     int
}

type c07World struct {
	c       *kernel.Ctx
	b       *world.Broker
	keys    map[string]*model.KeyInfo
	clients []*mqttc.Client
	store   []*c07Msg
	seq     int
	retain  int
}

func (w *c07World) expectReplay(filter []string, last int, from, until int64) []*c07Msg {
	now := time.Now()
	var cand []*c07Msg
	for _, m := range w.store {
		if !now.Before(m.expires) || !model.MatchEmitter(filter, m.levels) {
			continue
		}
		if m.t < from || (until != 0 && m.t > until) {
			continue
		}
		cand = append(cand, m)
	}
	sort.Slice(cand, func(i, j int) bool {
		if cand[i].t != cand[j].t {
			return cand[i].t > cand[j].t
		}
		return cand[i].seq > cand[j].seq
	})
	if len(cand) > last {
		cand = cand[:last]
	}
	return cand
}

func (w *c07World) avoidBoundary() {
	for again := true; again; {
		again = false
		for _, m := range w.store {
			if d := m.expires.Sub(time.Now()); d > -1500*time.Millisecond && d < 1500*time.Millisecond {
				time.Sleep(2 * time.Second)
				again = true
			}
		}
	}
}

func runC07(c *kernel.Ctx) {
	t := c.Tape
	if c.Params["campaign"] != "single" && (c.Params["campaign"] == "cluster" || t.Chance(1, 6)) {
		runC07Cluster(c)
		return
	}
	if c.Params["campaign"] != "single" && (c.Params["campaign"] == "conc" || t.Chance(1, 5)) {
		runC07Concurrent(c)
		return
	}
	c.SleepToEpoch()
	w := &c07World{c: c, keys: map[string]*model.KeyInfo{}}
	lic := world.Licenses[t.Choose(3)]
	w.retain = []int{30, 120, 2592000}[t.Choose(3)]
	opts := world.BrokerOpts{Lic: lic, Cluster: true, NodeName: "00:00:00:00:00:01", Advertise: "10.0.0.1:4000", StateDir: ":memory:", Storage: "inmemory", Retain: w.retain}
	if t.Chance(1, 2) {
		opts.Storage, opts.StorageDir = "ssd", filepath.Join(c.Scratch, "store")
	}
	if t.Chance(1, 3) {
		opts.Matcher = "mqtt"
	}
	w.b = world.StartBroker(c, opts)
	defer w.b.Close()
	c.Logf("store=%s retain=%d matcher=%q lic=v%d", opts.Storage, w.retain, opts.Matcher, lic.Ver)
	admin := w.b.Attach("admin")
	world.ConnectClient(c, admin, "admin", "", nil)
	for _, kd := range [][2]string{{"all", "rwls"}, {"nostore", "rwl"}, {"noload", "rws"}, {"ro", "rl"}} {
		k := world.Keygen(c, admin, lic.Master, "#/", kd[1], 0)
		w.keys[kd[0]] = &model.KeyInfo{Name: kd[0], Key: k, Decrypts: true, Contract: true, Perms: model.PermsOf(kd[1]), Target: "#/"}
	}
	n := t.Range(2, 4)
	for i := 0; i < n; i++ {
		cl := w.b.Attach(fmt.Sprintf("c%d", i))
		world.ConnectClient(c, cl, fmt.Sprintf("c%d", i), "", nil)
		w.clients = append(w.clients, cl)
	}
	lits := []string{"a", "b"}
	genLevels := func(plus bool) []string {
		d := t.Range(1, 3)
		var lv []string
		for i := 0; i < d; i++ {
			if plus && i > 0 && t.Chance(1, 5) {
				lv = append(lv, "+")
			} else {
				lv = append(lv, lits[t.Choose(2)])
			}
		}
		return lv
	}
	keyNames := []string{"all", "all", "all", "nostore", "noload", "ro"}
	held := make([]map[string]bool, len(w.clients))
	for i := range held {
		held[i] = map[string]bool{}
	}
	steps := t.Range(15, 90)
	burst := false
	for s := 0; s < steps && !t.Exhausted(); s++ {
		c.Step()
		ci := t.Choose(len(w.clients))
		cl := w.clients[ci]
		switch k := t.Choose(20); {
		case k < 1 && !burst: // once per run: more stored messages on one channel than any internal buffer holds
			burst = true
			key := w.keys["all"]
			lv := genLevels(false)
			n := t.Range(130, 170)
			world.Advance(c, time.Duration(t.Range(1, 900))*time.Millisecond)
			for i := 0; i < n; i++ {
				w.seq++
				payload := fmt.Sprintf("m%d", w.seq)
				cl.Send(cl.Publish(key.Key+"/"+model.Join(lv)+"?ttl=600", []byte(payload), false, false))
				now := time.Now()
				w.store = append(w.store, &c07Msg{levels: lv, payload: payload, t: now.Unix(), expires: time.Unix(now.Unix(), 0).Add(600 * time.Second), seq: w.seq})
				if i%20 == 19 {
					world.Settle()
				}
			}
			world.Settle()
			cl.Recv()
			c.Logf("c%d burst of %d on %s", ci, n, model.Join(lv))
			c.Probe("burst-over-128-messages")
		case k < 9: // publish
			key := w.keys[keyNames[t.Choose(len(keyNames))]]
			lv := genLevels(false)
			retain := t.Chance(1, 2)
			ttlOpt := -1
			if t.Chance(1, 2) {
				ttlOpt = []int{0, 5, 60, 600}[t.Choose(4)]
			}
			w.seq++
			payload := fmt.Sprintf("m%d", w.seq)
			topic := key.Key + "/" + model.Join(lv)
			if ttlOpt >= 0 {
				topic += fmt.Sprintf("?ttl=%d", ttlOpt)
			}
			world.Advance(c, time.Duration(t.Range(1, 900))*time.Millisecond)
			// header variations a client may legally send: QoS 1, and the DUP flag of a re-delivery whose
			// first copy never arrived (the statement makes no exception for them)
			pp := cl.Publish(topic, []byte(payload), retain, t.Chance(1, 3))
			if t.Chance(1, 4) {
				pp.Dup = true
				c.Probe("publish-with-dup-flag")
			}
			cl.Send(pp)
			world.Settle()
			cl.Recv()
			okPub := key.Perms&model.PermWrite != 0
			ttl := 0
			if retain {
				ttl = w.retain
			}
			if ttlOpt > 0 {
				ttl = ttlOpt
			}
			stored := okPub && ttl > 0 && key.Perms&model.PermStore != 0
			if stored {
				now := time.Now()
				w.store = append(w.store, &c07Msg{levels: lv, payload: payload, t: now.Unix(), expires: time.Unix(now.Unix(), 0).Add(time.Duration(ttl) * time.Second), seq: w.seq})
			}
			c.Logf("c%d publish %s:%s retain=%v ttl=%d -> stored=%v (ttl %d)", ci, key.Name, model.Join(lv), retain, ttlOpt, stored, ttl)
			c.State(fmt.Sprintf("pub retain=%v ttl=%d key=%s", retain, ttlOpt, key.Name))
		case k < 16: // subscribe and read the replay
			key := w.keys[keyNames[t.Choose(len(keyNames))]]
			lv := genLevels(true)
			if hk := sortedKeys(held[ci]); len(hk) > 0 && t.Chance(1, 3) {
				lv = model.Levels(hk[t.Choose(len(hk))]) // subscribe again to a filter this connection already holds
				c.Probe("resubscribe-held-filter")
			}
			last := -1
			if t.Chance(2, 3) {
				last = []int{0, 1, 2, 3, 5, 50, 1000}[t.Choose(7)]
			}
			var from, until int64
			now := time.Now().Unix()
			if t.Chance(1, 4) {
				from = now - int64([]int{0, 2, 30, 300}[t.Choose(4)])
			}
			if t.Chance(1, 4) {
				until = now - int64([]int{0, 2, 30, 300}[t.Choose(4)])
			}
			var opts []string
			if last >= 0 {
				opts = append(opts, fmt.Sprintf("last=%d", last))
			}
			if from != 0 {
				opts = append(opts, fmt.Sprintf("from=%d", from))
			}
			if until != 0 {
				opts = append(opts, fmt.Sprintf("until=%d", until))
			}
			topic := key.Key + "/" + model.Join(lv)
			if len(opts) > 0 {
				topic += "?" + strings.Join(opts, "&")
			}
			w.avoidBoundary()
			cl.Recv()
			p := cl.Subscribe(topic)
			cl.Send(p)
			world.Settle()
			pk, err := cl.Recv()
			if err != nil {
				c.Failf("replay-set", "undecodable", "%v", err)
			}
			var got []string
			acked := false
			afterAck := 0
			for _, x := range pk {
				switch v := x.(type) {
				case *packets.SubackPacket:
					acked = true
				case *packets.PublishPacket:
					if acked {
						afterAck++
					} else if v.TopicName != "emitter/error/" {
						got = append(got, v.TopicName+"="+string(v.Payload))
					}
				}
			}
			okSub := key.Perms&model.PermRead != 0
			n := 1
			if last >= 0 {
				n = last
			}
			var exp []*c07Msg
			if okSub && key.Perms&model.PermLoad != 0 {
				exp = w.expectReplay(lv, n, from, until)
			}
			var expS []string
			for _, m := range exp {
				expS = append(expS, model.Join(m.levels)+"="+m.payload)
			}
			c.Logf("c%d subscribe %s:%s last=%d from=%d until=%d -> replay %v", ci, key.Name, model.Join(lv), last, from != 0, until != 0, got)
			disc := fmt.Sprintf("key=%s last=%d window=%v", key.Name, min(last, 6), from != 0 || until != 0)
			if !acked {
				c.Check("replay-order", "no-suback", "no SUBACK after the subscription")
			}
			if afterAck > 0 {
				c.Check("replay-order", disc, "%d stored message(s) arrived after the SUBACK", afterAck)
			}
			if key.Perms&model.PermLoad == 0 && len(got) > 0 {
				c.Check("noload", disc, "key without the load permission was sent %v", got)
			}
			gs, es := append([]string(nil), got...), append([]string(nil), expS...)
			sort.Strings(gs)
			sort.Strings(es)
			if strings.Join(gs, ",") != strings.Join(es, ",") {
				rule := "replay-set"
				if len(w.store) > 0 && len(es) > len(gs) {
					// was the message stored at all? tell "stored" problems apart from replay problems
					rule = "replay-set"
				}
				c.Check(rule, disc, "subscription %s %s expected replay %v, got %v (store holds %d messages)", key.Name, topic[33:], expS, got, len(w.store))
			} else {
				// order: non-decreasing time (same-second order free)
				tOf := map[string]int64{}
				for _, m := range exp {
					tOf[model.Join(m.levels)+"="+m.payload] = m.t
				}
				prev := int64(0)
				for _, g := range got {
					if tOf[g] < prev {
						c.Check("replay-order", disc, "replay is not in non-decreasing time order: %v", got)
					}
					prev = tOf[g]
				}
			}
			if len(exp) > 0 {
				c.NonTrivial()
			}
			// mostly unsubscribe again; sometimes the connection keeps the subscription
			if okSub && t.Chance(1, 3) {
				held[ci][model.Join(lv)] = true
			} else {
				cl.Send(cl.Unsubscribe(w.keys["all"].Key + "/" + model.Join(lv)))
				world.Settle()
				cl.Recv()
				delete(held[ci], model.Join(lv))
			}
			c.State(fmt.Sprintf("sub key=%s last=%d exp=%d", key.Name, min(last, 6), min(len(exp), 4)))
		case k < 17: // audit of the whole store through two prefix subscriptions with a large last
			w.avoidBoundary()
			var got []string
			for _, top := range lits {
				admin.Recv()
				admin.Send(admin.Subscribe(w.keys["all"].Key + "/" + top + "/?last=1000"))
				world.Settle()
				pk, _ := admin.Recv()
				for _, x := range pk {
					if v, ok := x.(*packets.PublishPacket); ok && v.TopicName != "emitter/error/" {
						got = append(got, v.TopicName+"="+string(v.Payload))
					}
				}
				admin.Send(admin.Unsubscribe(w.keys["all"].Key + "/" + top + "/"))
				world.Settle()
				admin.Recv()
			}
			var exp []string
			for _, m := range w.store {
				if time.Now().Before(m.expires) {
					exp = append(exp, model.Join(m.levels)+"="+m.payload)
				}
			}
			sort.Strings(got)
			sort.Strings(exp)
			c.Logf("audit: %d stored", len(got))
			if strings.Join(got, ",") != strings.Join(exp, ",") {
				disc := "missing"
				if len(got) > len(exp) {
					disc = "extra"
				}
				c.Check("stored", disc, "the store holds %v, expected %v", got, exp)
			}
			c.Probe("store-audit")
		case k < 18: // clock
			d := []time.Duration{time.Second, 6 * time.Second, 61 * time.Second, 130 * time.Second, 11 * time.Minute}[t.Choose(5)]
			all := append([]*mqttc.Client{admin}, w.clients...)
			for _, x := range all {
				x.Send(mqttc.Ping())
			}
			world.Settle()
			if d > 100*time.Second { // keep connections alive across the 120 s read deadline
				for el := time.Duration(0); el < d; el += 60 * time.Second {
					world.Advance(c, 60*time.Second)
					for _, x := range all {
						x.Send(mqttc.Ping())
					}
					world.Settle()
				}
			} else {
				world.Advance(c, d)
			}
			for _, x := range all {
				x.Recv()
			}
			c.Logf("advance %v", d)
		default: // a connection with a last will ends
			key := w.keys[keyNames[t.Choose(len(keyNames))]]
			lv := genLevels(false)
			retain := t.Chance(2, 3)
			w.seq++
			payload := fmt.Sprintf("will%d", w.seq)
			v := w.b.Attach("willer")
			world.Advance(c, time.Duration(t.Range(1, 900))*time.Millisecond)
			world.ConnectClient(c, v, "willer", "", &mqttc.Will{Topic: key.Key + "/" + model.Join(lv), Payload: []byte(payload), Retain: retain})
			v.Conn.Close()
			v.Gone = true
			world.Settle()
			stored := key.Perms&model.PermWrite != 0 && retain && key.Perms&model.PermStore != 0
			if stored {
				now := time.Now()
				w.store = append(w.store, &c07Msg{levels: lv, payload: payload, t: now.Unix(), expires: time.Unix(now.Unix(), 0).Add(time.Duration(w.retain) * time.Second), seq: w.seq})
			}
			c.Logf("last will %s:%s retain=%v -> stored=%v", key.Name, model.Join(lv), retain, stored)
			c.Probe("last-will")
		}
	}
}
