package checks

import (
	"bytes"
	"fmt"
	"os"
	"path/filepath"
	"runtime"
	"sort"
	"sync"
	"testing/synctest"
	"time"

	"github.com/emitter-io/emitter/internal/message"
	"github.com/emitter-io/emitter/internal/provider/storage"
	"github.com/emitter-io/emitter/verifsim/kernel"
	"github.com/emitter-io/emitter/verifsim/model"
	"github.com/emitter-io/emitter/verifsim/world"
)

// C15 — stored messages survive broker restarts and crashes. Fault enumeration
// over crash points: after EVERY acknowledged store a crash image of the live
// store directory is taken (the instant Store returns), plus torn variants that
// keep only a prefix of the bytes that changed during the last store call.

func init() {
	kernel.Register(&kernel.World{
		Property: "C15", Bubble: true, Run: runC15, RunsPerProc: 12, RunTimeout: 600 * time.Second,
		Rule: "one evaluation = a tape-generated sequence of stores (channels, payload sizes 1 B .. 60 KB, ttl) on the real disk provider (badger on /dev/shm) split into 1-4 life cycles; EVERY return of Store is a crash point: a crash image (sparse copy of the live directory, no shutdown code) is reopened with a fresh provider and queried; between two consecutive images up to 4 torn images are built that apply only a tape-chosen prefix of the bytes that changed (kill inside the call); a cycle ends by clean Close or by crash and the next cycle continues on the image. Oracle: the store reopens; every acknowledged message comes back with identical id, channel, payload and ttl; nothing never stored appears; the in-flight message of a torn image is intact or absent. non-trivial = >= 1 image with >= 1 acknowledged message verified; distinct = distinct canonical logs; coverage.probes counts images",
		Real:  []string{"storage.SSD (Configure, Store, Query, Close)", "badger v3 open/recovery (memtable WAL replay, value log, manifest)", "message codec"},
		Stub:  []string{"crash = sparse copy of the live directory taken on the simulator goroutine at the return of Store", "torn write = prefix of the changed bytes between two images", "clock (synctest)"},
		Assumptions: []string{"process kill, not power loss: everything written (also through the shared memory map of the memtable file) is in the image", "images are taken at the return of Store and at quiescent instants; an image taken while badger's background flush runs would depend on the Go scheduler (no seam) and is not attempted", "torn variants cut the changed bytes in file-offset order per file, files in name order"},
	})
}

type c15Msg struct {
	id      message.ID
	ch      string
	payload []byte
	ttl     uint32
	seq     int
}

func c15Open(c *kernel.Ctx, dir string) (*storage.SSD, error) {
	s := storage.NewSSD(nil)
	err := s.Configure(map[string]interface{}{"dir": dir})
	return s, err
}

// c15Verify reopens an image and compares it with the acknowledged messages.
// inflight (may be nil) is the message whose Store call was cut.
func c15Verify(c *kernel.Ctx, image string, acked []*c15Msg, inflight *c15Msg, what string) {
	// opening a store modifies its directory (recovery flush, Close): work on a copy
	img := image + ".open"
	os.RemoveAll(img)
	world.SparseCopyDir(image, img)
	defer os.RemoveAll(img)
	st, err := c15Open(c, img)
	if err != nil {
		c.Check("reopen", what, "the store does not reopen on a %s image holding %d acknowledged messages: %v", what, len(acked), err)
		return
	}
	defer st.Close()
	got := map[string]message.Message{}
	for _, ch := range []string{"a", "b"} {
		frame, err := st.Query(message.Ssid(model.Ssid(77, []string{ch})), time.Unix(0, 0), time.Unix(0, 0), nil, 2000)
		if err != nil {
			c.Check("reopen", what+" query", "query on the reopened store failed: %v", err)
			return
		}
		// the reply cap is 64 KiB per query: page through with continuation ids
		for len(frame) > 0 {
			oldest := frame[0]
			for _, m := range frame {
				got[string(m.ID)] = m
				if bytes.Compare(m.ID, oldest.ID) > 0 {
					oldest = m
				}
			}
			frame, err = st.Query(message.Ssid(model.Ssid(77, []string{ch})), time.Unix(0, 0), time.Unix(0, 0), oldest.ID, 2000)
			if err != nil {
				break
			}
		}
	}
	for _, m := range acked {
		g, ok := got[string(m.id)]
		if !ok {
			c.Check("lost", what, "message #%d (of %d acknowledged) is missing after reopening a %s image", m.seq, len(acked), what)
			continue
		}
		if !bytes.Equal(g.Payload, m.payload) || string(g.Channel) != m.ch || g.TTL != m.ttl {
			c.Check("corrupt", what, "message #%d came back altered after reopening a %s image (payload %d vs %d bytes, channel %q vs %q, ttl %d vs %d)", m.seq, what, len(g.Payload), len(m.payload), g.Channel, m.ch, g.TTL, m.ttl)
		}
		delete(got, string(m.id))
	}
	if inflight != nil {
		if g, ok := got[string(inflight.id)]; ok {
			if !bytes.Equal(g.Payload, inflight.payload) || string(g.Channel) != inflight.ch {
				c.Check("corrupt", what+" inflight", "the message whose store call was cut is present but altered")
			}
			delete(got, string(inflight.id))
			c.Probe("torn-image-has-inflight-message")
		} else {
			c.Probe("torn-image-lacks-inflight-message")
		}
	}
	for range got {
		c.Check("phantom", what, "a message that was never stored appears after reopening a %s image", what)
		break
	}
	c.Probe("images-verified")
	// abstract state: kind of image x how much had been acknowledged (log2 bucket) x whether a store was cut
	b := 0
	for n := len(acked); n > 0; n >>= 1 {
		b++
	}
	c.State(fmt.Sprintf("%s acked~2^%d inflight=%v", what, b, inflight != nil))
	if len(acked) > 0 {
		c.NonTrivial()
	}
}

// c15Torn builds images between `before` and `after`: the bytes that differ are
// applied to a copy of `before` only up to a cut point.
func c15Torn(c *kernel.Ctx, before, after, scratch string, n int, acked []*c15Msg, inflight *c15Msg) {
	t := c.Tape
	type chunk struct {
		file     string
		off      int64
		data     []byte
		truncate int64
	}
	var chunks []chunk
	total := int64(0)
	names, _ := os.ReadDir(after)
	sort.Slice(names, func(i, j int) bool { return names[i].Name() < names[j].Name() })
	for _, de := range names {
		if de.IsDir() || de.Name() == "LOCK" {
			continue
		}
		ext, size := world.DataExtents(filepath.Join(after, de.Name()))
		fa, err := os.Open(filepath.Join(after, de.Name()))
		if err != nil {
			continue
		}
		fb, errb := os.Open(filepath.Join(before, de.Name()))
		for _, e := range ext {
			const blk = 4096
			for p := e[0]; p < e[1]; p += blk {
				nb := int64(blk)
				if e[1]-p < nb {
					nb = e[1] - p
				}
				a := make([]byte, nb)
				fa.ReadAt(a, p)
				b := make([]byte, nb)
				if errb == nil {
					fb.ReadAt(b, p)
				}
				if !bytes.Equal(a, b) {
					// narrow to the differing span
					lo, hi := 0, len(a)
					for lo < hi && a[lo] == b[lo] {
						lo++
					}
					for hi > lo && a[hi-1] == b[hi-1] {
						hi--
					}
					chunks = append(chunks, chunk{file: de.Name(), off: p + int64(lo), data: a[lo:hi], truncate: size})
					total += int64(hi - lo)
				}
			}
		}
		fa.Close()
		if errb == nil {
			fb.Close()
		}
	}
	if total == 0 {
		return
	}
	for k := 0; k < n; k++ {
		cut := int64(t.Choose(int(total) + 1))
		if k == 0 {
			cut = int64(t.Choose(64)) // very early and very late cuts are the interesting ones
			if cut > total {
				cut = total
			}
		} else if k == 1 {
			cut = total - int64(t.Choose(64))
			if cut < 0 {
				cut = 0
			}
		}
		img := filepath.Join(scratch, fmt.Sprintf("torn%d", k))
		os.RemoveAll(img)
		world.SparseCopyDir(before, img)
		left := cut
		for _, ch := range chunks {
			if left <= 0 {
				break
			}
			d := ch.data
			if int64(len(d)) > left {
				d = d[:left]
			}
			f, err := os.OpenFile(filepath.Join(img, ch.file), os.O_CREATE|os.O_WRONLY, 0o644)
			if err != nil {
				continue
			}
			if st, _ := f.Stat(); st.Size() < ch.truncate {
				f.Truncate(ch.truncate)
			}
			f.WriteAt(d, ch.off)
			f.Close()
			left -= int64(len(d))
		}
		c.Fault("torn-image")
		c15Verify(c, img, acked, inflight, "torn")
		os.RemoveAll(img)
	}
}

func runC15(c *kernel.Ctx) {
	t := c.Tape
	c.SleepToEpoch()
	live := filepath.Join(c.Scratch, "live0")
	st, err := c15Open(c, live)
	if err != nil {
		c.Harnessf("open: %v", err)
	}
	var acked []*c15Msg
	seq := 0
	cycles := t.Range(1, 4)
	prevImg := ""
	imgN := 0
	torn := 3
	if c.Params["tier"] == "thorough" {
		torn = 5
	}
	if c.Params["campaign"] == "memtable" || (c.Params["tier"] == "thorough" && c.Params["campaign"] == "" && t.Chance(1, 10)) {
		// memtable-crossing campaign: fill badger's 64 MiB memtable so that the crash
		// points of this run lie on both sides of a flush to an SST + manifest update
		bulk := 1040 + t.Choose(60)
		c.Logf("memtable campaign: %d bulk stores of 60 KB first", bulk)
		for i := 0; i < bulk; i++ {
			seq++
			ch := []string{"a", "b"}[i%2]
			payload := append(bytes.Repeat([]byte{byte('A' + seq%26)}, 60000), []byte(fmt.Sprintf("#%d", seq))...)
			m := message.New(message.Ssid(model.Ssid(77, []string{ch})), []byte(ch+"/"), payload)
			m.TTL = 86400
			if err := st.Store(m); err != nil {
				c.Failf("lost", "store-error", "Store returned an error: %v", err)
			}
			acked = append(acked, &c15Msg{id: append(message.ID(nil), m.ID...), ch: ch + "/", payload: payload, ttl: m.TTL, seq: seq})
		}
		c.Probe("memtable-campaign")
		cycles = 1
	}
	for cy := 0; cy < cycles; cy++ {
		stores := t.Range(1, 12)
		for i := 0; i < stores && !t.Exhausted(); i++ {
			c.Step()
			seq++
			ch := []string{"a", "b"}[t.Choose(2)]
			size := []int{1, 30, 300, 4000, 60000}[t.Choose(5)]
			payload := append(bytes.Repeat([]byte{byte('A' + seq%26)}, size), []byte(fmt.Sprintf("#%d", seq))...)
			m := message.New(message.Ssid(model.Ssid(77, []string{ch})), []byte(ch+"/"), payload)
			m.TTL = []uint32{3600, 86400, message.RetainedTTL}[t.Choose(3)]
			rec := &c15Msg{id: append(message.ID(nil), m.ID...), ch: ch + "/", payload: payload, seq: seq}
			if prevImg == "" { // baseline image before the first store of this life
				prevImg = filepath.Join(c.Scratch, fmt.Sprintf("img%d", imgN))
				imgN++
				synctest.Wait() // atomic snapshot: badger's recovery flush of the previous life has finished or is parked
				world.SparseCopyDir(live, prevImg)
			}
			if err := st.Store(m); err != nil {
				c.Failf("lost", "store-error", "Store returned an error: %v", err)
			}
			rec.ttl = m.TTL // Store maps the retained marker to the configured retention
			// --- image at the very return of Store, before anything else gets to run on purpose
			imgR := filepath.Join(c.Scratch, "atreturn")
			os.RemoveAll(imgR)
			world.SparseCopyDir(live, imgR)
			// --- crash point: the instant Store has returned
			img := filepath.Join(c.Scratch, fmt.Sprintf("img%d", imgN))
			imgN++
			synctest.Wait() // every other goroutine is parked: the copy below is an atomic snapshot
			world.SparseCopyDir(live, img)
			c.Fault("crash-image")
			c.Logf("store #%d %s size=%d ttl=%d acknowledged; image %d", seq, ch, size, rec.ttl, imgN-1)
			c15Torn(c, prevImg, img, c.Scratch, torn, acked, rec)
			acked = append(acked, rec)
			c15Verify(c, img, acked, nil, "crash")
			c15AtReturn(c, imgR, img, acked)
			os.RemoveAll(imgR)
			os.RemoveAll(prevImg)
			prevImg = img
			if t.Chance(1, 6) {
				time.Sleep(time.Duration(t.Range(1, 3000)) * time.Millisecond)
			}
			if t.Chance(1, 8) {
				// several connections publish at once: 2-3 goroutines store a few messages each at the same
				// time (how they interleave inside the store is the Go scheduler's); when all calls have
				// returned a crash image is taken: every one of them was acknowledged
				ng := t.Range(2, 3)
				per := t.Range(3, 8)
				recs := make([][]*c15Msg, ng)
				errs := make([]error, ng)
				var wg sync.WaitGroup
				for g := 0; g < ng; g++ {
					for k := 0; k < per; k++ {
						seq++
						ch := []string{"a", "b"}[(seq+g)%2]
						payload := append(bytes.Repeat([]byte{byte('a' + seq%26)}, []int{5, 200, 3000}[k%3]), []byte(fmt.Sprintf("#%d", seq))...)
						recs[g] = append(recs[g], &c15Msg{ch: ch + "/", payload: payload, ttl: 86400, seq: seq})
					}
				}
				for g := 0; g < ng; g++ {
					g := g
					wg.Add(1)
					go func() {
						defer wg.Done()
						for _, r := range recs[g] {
							m := message.New(message.Ssid(model.Ssid(77, []string{r.ch[:1]})), []byte(r.ch), r.payload)
							m.TTL = r.ttl
							r.id = append(message.ID(nil), m.ID...)
							if err := st.Store(m); err != nil {
								errs[g] = err
								return
							}
						}
					}()
				}
				wg.Wait()
				for g := range errs {
					if errs[g] != nil {
						c.Failf("lost", "store-error", "Store returned an error: %v", errs[g])
					}
					acked = append(acked, recs[g]...)
				}
				synctest.Wait()
				img := filepath.Join(c.Scratch, fmt.Sprintf("img%d", imgN))
				imgN++
				world.SparseCopyDir(live, img)
				c.Fault("crash-image")
				c.Fault("concurrent-stores")
				c.Logf("%d goroutines stored %d messages each at the same time; image %d", ng, per, imgN-1)
				c15Verify(c, img, acked, nil, "crash")
				os.RemoveAll(prevImg)
				prevImg = img
			}
		}
		// end of this life: clean close or crash; the next life continues on what is on disk
		next := filepath.Join(c.Scratch, fmt.Sprintf("live%d", cy+1))
		if t.Chance(1, 2) {
			if t.Chance(1, 2) {
				// a clean shutdown while a publisher is still storing: whatever Store acknowledged (returned
				// nil for) by the time the store is closed must be there afterwards; a call that is refused,
				// hangs or dies inside the closing store acknowledged nothing. How the two goroutines
				// interleave is up to the Go scheduler (the store has no seam), so nothing about it is logged.
				var mu sync.Mutex
				var during []*c15Msg
				base := seq
				nmax := t.Range(10, 40)
				seq += nmax
				go func() {
					for i := 0; i < nmax; i++ {
						n := base + i + 1
						ch := []string{"a", "b"}[n%2]
						payload := append(bytes.Repeat([]byte{byte('A' + n%26)}, 40), []byte(fmt.Sprintf("#%d", n))...)
						m := message.New(message.Ssid(model.Ssid(77, []string{ch})), []byte(ch+"/"), payload)
						m.TTL = 86400
						rec := &c15Msg{id: append(message.ID(nil), m.ID...), ch: ch + "/", payload: payload, ttl: m.TTL, seq: n}
						ok := func() (ok bool) {
							defer func() {
								if recover() != nil {
									ok = false
								}
							}()
							return st.Store(m) == nil
						}()
						if ok {
							mu.Lock()
							during = append(during, rec)
							mu.Unlock()
						}
					}
				}()
				if t.Chance(1, 2) {
					runtime.Gosched()
				}
				st.Close()
				synctest.Wait()
				mu.Lock()
				acked = append(acked, during...)
				mu.Unlock()
				c.Fault("clean-close-during-stores")
				c.Logf("clean close while a publisher was storing")
			} else {
				st.Close()
			}
			c.Logf("clean close")
			c.Fault("clean-close")
			world.SparseCopyDir(live, next)
		} else {
			synctest.Wait()
			world.SparseCopyDir(live, next) // crash: no Close before the copy
			c.Logf("crash")
			c.Fault("crash-restart")
			st.Close() // release the dead life's resources (its directory is no longer used)
		}
		os.RemoveAll(live)
		os.RemoveAll(prevImg)
		prevImg = ""
		live = next
		message.VerifNewProcess() // the next life is a new process: fresh id sequence and nonce
		st, err = c15Open(c, live)
		if err != nil {
			c.Check("reopen", "cycle", "the store does not reopen for life %d: %v", cy+1, err)
			return
		}
		c15VerifyLive(c, st, acked)
	}
	st.Close()
}

// c15AtReturn verifies the image taken the instant Store returned (imgR). That
// copy is not atomic with respect to badger's background goroutines, so a
// missing message only counts when the quiescent image (imgQ) differs from it
// in nothing but the write-ahead / value log files: then the call had returned
// before its own write was in the store's files.
func c15AtReturn(c *kernel.Ctx, imgR, imgQ string, acked []*c15Msg) {
	names, _ := os.ReadDir(imgQ)
	for _, de := range names {
		n := de.Name()
		if de.IsDir() || n == "LOCK" || filepath.Ext(n) == ".mem" || filepath.Ext(n) == ".vlog" {
			continue
		}
		a, _ := os.ReadFile(filepath.Join(imgR, n))
		b, _ := os.ReadFile(filepath.Join(imgQ, n))
		if !bytes.Equal(a, b) {
			c.Probe("image-at-return-inconclusive:" + filepath.Ext(n) + n[:1])
			return
		}
	}
	st, err := c15Open(c, imgR)
	if err != nil {
		c.Probe("image-at-return-inconclusive:open")
		return
	}
	defer st.Close()
	last := acked[len(acked)-1]
	ch := last.ch[:1]
	found := false
	var start message.ID
	for !found {
		frame, err := st.Query(message.Ssid(model.Ssid(77, []string{ch})), time.Unix(0, 0), time.Unix(0, 0), start, 2000)
		if err != nil || len(frame) == 0 {
			break
		}
		oldest := frame[0]
		for _, m := range frame {
			if bytes.Equal(m.ID, last.id) {
				found = true
			}
			if bytes.Compare(m.ID, oldest.ID) > 0 {
				oldest = m
			}
		}
		start = oldest.ID
	}
	c.Probe("images-at-return-verified")
	if !found {
		c.Check("lost", "image-at-return", "Store had returned for message #%d but a kill at that instant loses it: the message is not yet in the store's files (it is there once the background goroutines have run)", last.seq)
	}
}

// c15VerifyLive checks the reopened live store itself (not a copy).
func c15VerifyLive(c *kernel.Ctx, st *storage.SSD, acked []*c15Msg) {
	got := map[string]bool{}
	for _, ch := range []string{"a", "b"} {
		var start message.ID
		for {
			frame, err := st.Query(message.Ssid(model.Ssid(77, []string{ch})), time.Unix(0, 0), time.Unix(0, 0), start, 2000)
			if err != nil || len(frame) == 0 {
				break
			}
			oldest := frame[0]
			for _, m := range frame {
				got[string(m.ID)] = true
				if bytes.Compare(m.ID, oldest.ID) > 0 {
					oldest = m
				}
			}
			start = oldest.ID
		}
	}
	for _, m := range acked {
		if !got[string(m.id)] {
			c.Check("lost", "restart", "message #%d is missing after the restart", m.seq)
		}
	}
	if len(got) > len(acked) {
		c.Check("phantom", "restart", "%d messages after the restart, %d were stored", len(got), len(acked))
	}
}
