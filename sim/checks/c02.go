package checks

import (
	"encoding/json"
	"fmt"
	"sort"
	"strings"
	"time"

	"github.com/eclipse/paho.mqtt.golang/packets"
	"github.com/emitter-io/emitter/internal/message"
	"github.com/emitter-io/emitter/verifsim/kernel"
	"github.com/emitter-io/emitter/verifsim/model"
	"github.com/emitter-io/emitter/verifsim/mqttc"
	"github.com/emitter-io/emitter/verifsim/world"
)

// C02 — sessions on one broker: an acknowledged subscription gets every
// matching publish once, until removed; bad requests change nothing.

func init() {
	kernel.Register(&kernel.World{
		Property: "C02", Bubble: true, Run: runC02, RunsPerProc: 250,
		Rule: "one run = a tape-generated session of 2-4 clients on one real broker (connect, subscribe 1-3 filters, unsubscribe, publish incl. me=0 / QoS1 / link shortcuts, link requests, bad requests), packets optionally fed in chunks interleaved with other clients; 1 run in 6 = the concurrent campaign: 2-4 connections each write 1-3 subscribe / unsubscribe requests on one branch of the trie at once, their goroutines are interleaved at every mutex boundary of internal/message, pubsub and broker/conn.go (autoyield points; uniform, depth-preemptive or sticky policy), then the trie must hold exactly the acknowledged subscriptions and probe publishes reach exactly their holders once; non-trivial = at least one publish whose expected recipient set was non-empty was checked; distinct = distinct canonical event logs",
		Real:  []string{"broker.Service", "broker.Conn", "mqtt codec (emitter side)", "pubsub", "link", "me", "keygen", "message.Trie", "message.Counters", "security.ParseChannel/Key", "cluster.Swarm (single node)", "event.State/crdt"},
		Stub:  []string{"client sockets (simnet)", "weaveworks/mesh (simmesh, no peers)", "clock (synctest)"},
		Assumptions: []string{"outside the concurrent campaign steps are atomic: one client packet (or chunk) then quiescence", "connection ids have distinct 32-bit hashes"},
	})
}

type c02Client struct {
	cl     *mqttc.Client
	idx    int
	subs   map[string]bool   // acknowledged filters (canonical "a/+/")
	links  map[string]string // alias -> full channel string "key/chan/?opts"
	outbox []byte
	onDone func() // applied when the last byte of the outbox has been fed
	expect []string
	got    []string
}

type c02World struct {
	c       *kernel.Ctx
	b       *world.Broker
	mode    string
	clients []*c02Client
	keys    []*model.KeyInfo
	norm    *world.Norm
	base    map[string]bool // trie entries present before any client subscribed
	pubSeq  int
	levels  []string
}

func filterKey(levels []string) string { return model.Join(levels) }

func (w *c02World) genLevels(allowPlus, allowHash bool) []string {
	t := w.c.Tape
	depth := t.Range(1, 3)
	out := make([]string, 0, depth)
	for i := 0; i < depth; i++ {
		if allowPlus && t.Chance(1, 5) {
			out = append(out, "+")
		} else {
			out = append(out, w.levels[t.Choose(len(w.levels))])
		}
	}
	if allowHash && t.Chance(1, 5) {
		out = append(out, "#")
	}
	return out
}

func (w *c02World) recipients(levels []string, exclude *c02Client) []*c02Client {
	var out []*c02Client
	for _, cl := range w.clients {
		if cl == exclude || cl.cl.Gone {
			continue
		}
		for f := range cl.subs {
			if model.Match(w.mode, model.Levels(f), levels) {
				out = append(out, cl)
				break
			}
		}
	}
	return out
}

func canon(p packets.ControlPacket, norm *world.Norm) string {
	switch x := p.(type) {
	case *packets.PublishPacket:
		if x.TopicName == "emitter/error/" {
			var r world.Resp
			json.Unmarshal(x.Payload, &r)
			return fmt.Sprintf("ERROR req=%d", r.Req)
		}
		return fmt.Sprintf("PUBLISH %s %q", x.TopicName, norm.Apply(string(x.Payload)))
	case *packets.SubackPacket:
		return fmt.Sprintf("SUBACK %d %v", x.MessageID, x.ReturnCodes)
	case *packets.UnsubackPacket:
		return fmt.Sprintf("UNSUBACK %d", x.MessageID)
	case *packets.PubackPacket:
		return fmt.Sprintf("PUBACK %d", x.MessageID)
	case *packets.PingrespPacket:
		return "PINGRESP"
	case *packets.ConnackPacket:
		return fmt.Sprintf("CONNACK %d", x.ReturnCode)
	}
	return fmt.Sprintf("OTHER %T", p)
}

func runC02(c *kernel.Ctx) {
	t := c.Tape
	if c.Params["campaign"] != "session" && (c.Params["campaign"] == "concurrent" || t.Chance(1, 6)) {
		runC02Concurrent(c)
		return
	}
	c.SleepToEpoch()
	w := &c02World{c: c, norm: world.NewNorm(), levels: []string{"a", "b", "x", "y"}}
	lic := world.Licenses[t.Choose(3)]
	if t.Chance(1, 2) {
		w.mode = "mqtt"
	}
	w.b = world.StartBroker(c, world.BrokerOpts{Lic: lic, Matcher: w.mode, Cluster: true, NodeName: "00:00:00:00:00:01", Advertise: "10.0.0.1:4000", StateDir: ":memory:"})
	defer w.b.Close()
	c.Logf("config lic=v%d mode=%q", lic.Ver, w.mode)

	// keys through real keygen requests on an admin connection
	admin := w.b.Attach("admin")
	world.ConnectClient(c, admin, "admin", "", nil)
	mk := func(name, target, typ string) *model.KeyInfo {
		k := world.Keygen(c, admin, lic.Master, target, typ, 0)
		w.norm.Name("key", k)
		return &model.KeyInfo{Name: name, Key: k, Decrypts: true, Contract: true, Perms: model.PermsOf(typ), Target: target}
	}
	w.keys = []*model.KeyInfo{
		mk("kRW", "#/", "rw"), mk("kRW", "#/", "rw"), mk("kRW", "#/", "rwlsp"),
		mk("kR", "#/", "r"), mk("kW", "#/", "w"), mk("kA", "a/#/", "rw"), mk("kExt", "#/", "rwe"),
		{Name: "kBad", Key: "!!!!!!!!!!!!!!!!!!!!!!!!!!!!!!!!"},
		{Name: "kForeign", Key: world.Licenses[3+t.Choose(3)].Master},
	}
	_, baseEntries := w.b.Svc.VerifTrie().VerifDump()
	w.base = map[string]bool{}
	for _, e := range baseEntries {
		w.base[fmt.Sprintf("%v|%s", e.Ssid, e.ID)] = true
	}

	n := t.Range(2, 4)
	for i := 0; i < n; i++ {
		cl := w.b.Attach(fmt.Sprintf("c%d", i))
		world.ConnectClient(c, cl, fmt.Sprintf("c%d", i), fmt.Sprintf("user%d", i), nil)
		w.norm.Name("conn", cl.ID)
		w.clients = append(w.clients, &c02Client{cl: cl, idx: i, subs: map[string]bool{}, links: map[string]string{}})
	}

	steps := t.Range(20, 120)
	for s := 0; s < steps && !t.Exhausted(); s++ {
		c.Step()
		w.step()
		w.verifyStep()
	}
	// wind-down: feed every pending byte, then a final probe publish per channel shape
	for _, cl := range w.clients {
		for len(cl.outbox) > 0 {
			w.feed(cl, len(cl.outbox))
			w.verifyStep()
		}
	}
	w.verifyTrie()
	w.brokenSubscriber()
}

// brokenSubscriber is the last act of a run (fault injection): the socket of one client stops
// accepting writes (a half-dead TCP connection: the broker's writes fail, its read loop has not
// noticed yet) while it still holds its subscriptions; then messages are published on a channel
// that this client and others are subscribed to. Whatever the broker does with the broken
// connection, every healthy client that holds a matching acknowledged subscription receives each
// message exactly once (the fan-out visits subscribers in no particular order: several messages).
func (w *c02World) brokenSubscriber() {
	t, c := w.c.Tape, w.c
	if len(w.clients) < 2 || !t.Chance(1, 2) {
		return
	}
	victim := w.clients[t.Choose(len(w.clients))]
	ch := w.genLevels(false, false)
	full := w.keys[0].Key + "/" + model.Join(ch)
	// the victim and every other client subscribe to the channel (those that already match keep what they have)
	for _, cl := range w.clients {
		if cl.cl.Gone || len(w.recipientsOf(ch, cl)) > 0 {
			continue
		}
		cl.cl.Recv()
		cl.cl.Send(cl.cl.Subscribe(full))
		world.Settle()
		cl.cl.Recv()
		cl.subs[filterKey(ch)] = true
	}
	for _, cl := range w.clients {
		cl.cl.Recv()
	}
	victim.cl.Conn.BreakPeerWrites()
	c.Fault("subscriber-write-side-dead")
	c.Logf("c%d stops accepting writes; publishes on %s follow", victim.idx, model.Join(ch))
	pub := w.b.Attach("faultpub")
	world.ConnectClient(c, pub, "faultpub", "", nil)
	n := t.Range(3, 6)
	for i := 0; i < n; i++ {
		pub.Send(pub.Publish(full, []byte(fmt.Sprintf("after-fault-%d", i)), false, false))
		world.Settle()
	}
	pub.Recv()
	for _, cl := range w.clients {
		if cl == victim || cl.cl.Gone {
			continue
		}
		pk, err := cl.cl.Recv()
		if err != nil {
			c.Failf("content", "undecodable", "c%d: %v", cl.idx, err)
		}
		cnt := map[string]int{}
		for _, x := range pk {
			if p, ok := x.(*packets.PublishPacket); ok && strings.HasPrefix(string(p.Payload), "after-fault-") {
				cnt[string(p.Payload)]++
			}
		}
		for i := 0; i < n; i++ {
			pl := fmt.Sprintf("after-fault-%d", i)
			switch {
			case cnt[pl] == 0:
				c.Check("missing", "subscriber-write-fault", "c%d holds a matching subscription and its connection is healthy, but message %s published after c%d's socket stopped accepting writes never reached it (%d of %d arrived)", cl.idx, pl, victim.idx, len(cnt), n)
			case cnt[pl] > 1:
				c.Check("dup", "subscriber-write-fault", "c%d received %s %d times", cl.idx, pl, cnt[pl])
			}
		}
	}
}

// recipientsOf: the filters of cl that match the channel.
func (w *c02World) recipientsOf(ch []string, cl *c02Client) []string {
	var out []string
	for f := range cl.subs {
		if model.Match(w.mode, model.Levels(f), ch) {
			out = append(out, f)
		}
	}
	return out
}

func (w *c02World) pickKey() *model.KeyInfo {
	t := w.c.Tape
	if t.Chance(3, 4) {
		return w.keys[t.Choose(3)] // mostly fully capable keys
	}
	return w.keys[t.Choose(len(w.keys))]
}

func optString(me0 bool) string {
	if me0 {
		return "?me=0"
	}
	return ""
}

// step performs one simulator step: a client composes a request and/or feeds bytes.
func (w *c02World) step() {
	t := w.c.Tape
	cl := w.clients[t.Choose(len(w.clients))]
	if len(cl.outbox) > 0 {
		w.feed(cl, 0)
		return
	}
	now := time.Now()
	switch k := t.Choose(100); {
	case k < 30: // subscribe 1-3 filters
		nf := 1
		if t.Chance(1, 3) {
			nf = t.Range(2, 3)
		}
		var topics []string
		var effects []func()
		codes := []byte{}
		nerr := 0
		desc := []string{}
		for i := 0; i < nf; i++ {
			key := w.pickKey()
			lv := w.genLevels(true, w.mode == "mqtt")
			topic := key.Key + "/" + model.Join(lv)
			bad := false
			if t.Chance(1, 12) { // unparsable channel
				topic = key.Key + "/" + strings.TrimSuffix(model.Join(lv), "/") + "$$ /"
				bad = true
			}
			ok := !bad && model.Permitted(key, model.PermRead, lv, now) && key.Perms&model.PermExtend == 0
			topics = append(topics, topic)
			desc = append(desc, fmt.Sprintf("%s:%s:%v", key.Name, model.Join(lv), ok))
			if ok {
				f := filterKey(lv)
				effects = append(effects, func() { cl.subs[f] = true })
				codes = append(codes, 0)
			} else {
				codes = append(codes, 0x80)
				nerr++
			}
		}
		p := cl.cl.Subscribe(topics...)
		w.c.Logf("c%d SUBSCRIBE mid=%d %v", cl.idx, p.MessageID, desc)
		mid := p.MessageID
		w.compose(cl, p, func() {
			for _, e := range effects {
				e()
			}
			for i := 0; i < nerr; i++ {
				cl.expect = append(cl.expect, fmt.Sprintf("ERROR req=%d", mid))
			}
			cl.expect = append(cl.expect, fmt.Sprintf("SUBACK %d %v", mid, codes))
		})
	case k < 48: // unsubscribe
		key := w.pickKey()
		var lv []string
		if len(cl.subs) > 0 && t.Chance(3, 4) {
			fs := sortedKeys(cl.subs)
			lv = model.Levels(fs[t.Choose(len(fs))])
		} else {
			lv = w.genLevels(true, w.mode == "mqtt")
		}
		topic := key.Key + "/" + model.Join(lv)
		ok := model.Permitted(key, model.PermRead, lv, now) && key.Perms&model.PermExtend == 0
		p := cl.cl.Unsubscribe(topic)
		mid := p.MessageID
		w.c.Logf("c%d UNSUBSCRIBE mid=%d %s:%s:%v", cl.idx, mid, key.Name, model.Join(lv), ok)
		w.compose(cl, p, func() {
			if ok {
				delete(cl.subs, filterKey(lv))
			} else {
				cl.expect = append(cl.expect, fmt.Sprintf("ERROR req=%d", mid))
			}
			cl.expect = append(cl.expect, fmt.Sprintf("UNSUBACK %d", mid))
		})
	case k < 85: // publish
		key := w.pickKey()
		lv := w.genLevels(t.Chance(1, 10), false)
		me0 := t.Chance(1, 4)
		qos1 := t.Chance(1, 4)
		viaLink := ""
		if len(cl.links) > 0 && t.Chance(1, 3) {
			names := sortedKeysS(cl.links)
			viaLink = names[t.Choose(len(names))]
		}
		w.pubSeq++
		payload := fmt.Sprintf("m%d", w.pubSeq)
		var p *packets.PublishPacket
		var full string
		if viaLink != "" {
			full = cl.links[viaLink]
			p = cl.cl.Publish(viaLink, []byte(payload), false, qos1)
		} else {
			full = key.Key + "/" + model.Join(lv) + optString(me0)
			if t.Chance(1, 15) {
				full = key.Key + "/" + strings.TrimSuffix(model.Join(lv), "/") // no trailing slash: invalid
			}
			p = cl.cl.Publish(full, []byte(payload), false, qos1)
		}
		if t.Chance(1, 6) {
			p.Dup = true // a re-delivery whose first copy never arrived is a publish like any other
		}
		w.c.Logf("c%d PUBLISH %s link=%q qos1=%v dup=%v %s", cl.idx, w.norm.Apply(full), viaLink, qos1, p.Dup, payload)
		mid := p.MessageID
		w.compose(cl, p, func() { w.applyPublish(cl, full, payload, qos1, mid) })
	case k < 95: // link request
		key := w.pickKey()
		lv := w.genLevels(t.Chance(1, 6), false)
		name := []string{"l1", "l2", "x", "toolong", "b!"}[t.Choose(5)]
		sub := t.Chance(1, 2)
		me0 := t.Chance(1, 4)
		chanStr := model.Join(lv) + optString(me0)
		body, _ := json.Marshal(map[string]any{"name": name, "key": key.Key, "channel": chanStr, "subscribe": sub})
		p := cl.cl.Publish("emitter/link/", body, false, false)
		w.c.Logf("c%d LINK %s %s:%s sub=%v", cl.idx, name, key.Name, chanStr, sub)
		w.compose(cl, p, func() {
			valid := name == "l1" || name == "l2" || name == "x"
			if !valid {
				cl.expect = append(cl.expect, "LINKRESP err")
				return
			}
			cl.links[name] = key.Key + "/" + chanStr
			if sub && model.Permitted(key, model.PermRead, lv, time.Now()) && key.Perms&model.PermExtend == 0 {
				cl.subs[filterKey(lv)] = true
			}
			cl.expect = append(cl.expect, "LINKRESP ok "+name)
		})
	default: // ping
		w.c.Logf("c%d PING", cl.idx)
		w.compose(cl, mqttc.Ping(), func() { cl.expect = append(cl.expect, "PINGRESP") })
	}
	w.feed(cl, 0)
}

// applyPublish computes the expected effect of a publish whose topic expands to `full`.
func (w *c02World) applyPublish(cl *c02Client, full, payload string, qos1 bool, mid uint16) {
	errOut := func() {
		cl.expect = append(cl.expect, fmt.Sprintf("ERROR req=%d", mid))
		if qos1 {
			cl.expect = append(cl.expect, fmt.Sprintf("PUBACK %d", mid))
		}
	}
	// parse per the documented channel grammar: key/levels/[?opts]
	i := strings.IndexByte(full, '/')
	if i <= 0 {
		errOut()
		return
	}
	keyStr, rest := full[:i], full[i+1:]
	opts := ""
	if j := strings.Index(rest, "?"); j >= 0 {
		rest, opts = rest[:j], rest[j+1:]
	}
	if !strings.HasSuffix(rest, "/") || rest == "/" {
		errOut()
		return
	}
	lv := model.Levels(rest)
	for _, l := range lv {
		if l == "+" || l == "#" || l == "" {
			errOut() // publish needs a static channel
			return
		}
	}
	var key *model.KeyInfo
	for _, k := range w.keys {
		if k.Key == keyStr {
			key = k
		}
	}
	if !model.Permitted(key, model.PermWrite, lv, time.Now()) || key.Perms&model.PermExtend != 0 {
		errOut()
		return
	}
	var exclude *c02Client
	if opts == "me=0" {
		exclude = cl
	}
	rcpt := w.recipients(lv, exclude)
	for _, r := range rcpt {
		r.expect = append(r.expect, fmt.Sprintf("PUBLISH %s %q", rest, payload))
	}
	if len(rcpt) > 0 {
		w.c.NonTrivial()
	}
	if qos1 {
		cl.expect = append(cl.expect, fmt.Sprintf("PUBACK %d", mid))
	}
	w.c.State(fmt.Sprintf("pub depth=%d rcpt=%d me0=%v", len(lv), len(rcpt), exclude != nil))
}

func (w *c02World) compose(cl *c02Client, p packets.ControlPacket, done func()) {
	cl.outbox = mqttc.Encode(p)
	cl.onDone = done
}

// feed writes n bytes of the outbox (n==0: tape decides: usually all).
func (w *c02World) feed(cl *c02Client, n int) {
	t := w.c.Tape
	if n == 0 {
		n = len(cl.outbox)
		if n > 1 && t.Chance(1, 6) {
			n = t.Range(1, n-1)
			w.c.Fault("chunked-write")
		}
	}
	cl.cl.Conn.Write(cl.outbox[:n])
	cl.outbox = cl.outbox[n:]
	if len(cl.outbox) == 0 && cl.onDone != nil {
		cl.onDone()
		cl.onDone = nil
	} else {
		w.c.Logf("c%d fed %d bytes, %d pending", cl.idx, n, len(cl.outbox))
	}
	world.Settle()
}

func (w *c02World) verifyStep() {
	c := w.c
	for _, cl := range w.clients {
		pkts, err := cl.cl.Recv()
		if err != nil {
			c.Failf("content", "undecodable", "c%d: %v", cl.idx, err)
		}
		cl.got = cl.got[:0]
		for _, p := range pkts {
			s := canon(p, w.norm)
			if pub, ok := p.(*packets.PublishPacket); ok && pub.TopicName == "emitter/link/" {
				var r world.Resp
				json.Unmarshal(pub.Payload, &r)
				if r.Status == 200 {
					s = "LINKRESP ok " + r.Name
				} else {
					s = "LINKRESP err"
				}
			}
			cl.got = append(cl.got, s)
		}
		exp := append([]string(nil), cl.expect...)
		got := append([]string(nil), cl.got...)
		cl.expect = cl.expect[:0]
		sort.Strings(exp)
		sort.Strings(got)
		c.Logf("c%d <- %v", cl.idx, got)
		if strings.Join(exp, "\n") == strings.Join(got, "\n") {
			continue
		}
		// classify
		rule, disc := classifyDiff(exp, got)
		tw := w.twinInfo(cl)
		c.Check(rule, disc+tw, "client c%d: expected %v, got %v (subs=%v)", cl.idx, exp, got, sortedKeys(cl.subs))
		// known finding: resynchronise the model with what the broker really holds
		w.resync()
	}
	if len(w.clients) > 0 {
		w.verifyTrie()
	}
}

func classifyDiff(exp, got []string) (rule, disc string) {
	em, gm := map[string]int{}, map[string]int{}
	for _, e := range exp {
		em[e]++
	}
	for _, g := range got {
		gm[g]++
	}
	for e, n := range em {
		if gm[e] < n {
			kind := strings.SplitN(e, " ", 2)[0]
			switch kind {
			case "PUBLISH":
				// same payload on another channel = content altered
				pl := e[strings.LastIndex(e, " "):]
				for g := range gm {
					if strings.HasPrefix(g, "PUBLISH") && strings.HasSuffix(g, pl) && em[g] == 0 {
						return "content", "publish"
					}
				}
				return "missing", "publish"
			case "ERROR", "LINKRESP":
				return "reject", kind
			default:
				return "ack", kind
			}
		}
	}
	for g, n := range gm {
		if em[g] < n {
			kind := strings.SplitN(g, " ", 2)[0]
			switch kind {
			case "PUBLISH":
				if em[g] > 0 {
					return "dup", "publish"
				}
				return "extra", "publish"
			case "ERROR", "LINKRESP":
				return "reject", "unexpected-" + kind
			default:
				return "ack", "unexpected-" + kind
			}
		}
	}
	return "ack", "order"
}

// twinInfo describes whether the client holds filters whose level hashes XOR
// to the same value (the discriminator used by known findings).
func (w *c02World) twinInfo(cl *c02Client) string {
	seen := map[uint32]string{}
	for _, f := range sortedKeys(cl.subs) {
		h := message.Ssid(model.Ssid(0, model.Levels(f))).GetHashCode()
		if o, ok := seen[h]; ok {
			return fmt.Sprintf(" xor-twins(%s,%s)", o, f)
		}
		seen[h] = f
	}
	return ""
}

func (w *c02World) modelEntries() map[string]bool {
	out := map[string]bool{}
	contract := w.b.Opts.Lic.Contract
	for _, cl := range w.clients {
		if cl.cl.Gone {
			continue
		}
		for f := range cl.subs {
			out[fmt.Sprintf("%v|%s", message.Ssid(model.Ssid(contract, model.Levels(f))), cl.cl.ID)] = true
		}
	}
	return out
}

func (w *c02World) verifyTrie() {
	_, entries := w.b.Svc.VerifTrie().VerifDump()
	got := map[string]bool{}
	for _, e := range entries {
		k := fmt.Sprintf("%v|%s", e.Ssid, e.ID)
		if !w.base[k] {
			got[k] = true
		}
	}
	exp := w.modelEntries()
	var miss, extra []string
	for k := range exp {
		if !got[k] {
			miss = append(miss, w.norm.Apply(k))
		}
	}
	for k := range got {
		if !exp[k] {
			extra = append(extra, w.norm.Apply(k))
		}
	}
	if len(miss)+len(extra) == 0 {
		return
	}
	sort.Strings(miss)
	sort.Strings(extra)
	tw := ""
	for _, cl := range w.clients {
		tw += w.twinInfo(cl)
	}
	disc := "trie-missing"
	if len(miss) == 0 {
		disc = "trie-extra"
	}
	w.c.Check("state", disc+tw, "subscription index differs from the model: missing %v extra %v", miss, extra)
	w.resync()
}

// resync (only after a KNOWN finding): adopt the broker's real subscription
// set so that later steps stay comparable.
func (w *c02World) resync() {
	_, entries := w.b.Svc.VerifTrie().VerifDump()
	contract := w.b.Opts.Lic.Contract
	for _, cl := range w.clients {
		real := map[string]bool{}
		for f := range cl.subs {
			k := fmt.Sprintf("%v|%s", message.Ssid(model.Ssid(contract, model.Levels(f))), cl.cl.ID)
			for _, e := range entries {
				if fmt.Sprintf("%v|%s", e.Ssid, e.ID) == k {
					real[f] = true
				}
			}
		}
		cl.subs = real
		cl.expect = cl.expect[:0]
	}
}

func sortedKeys(m map[string]bool) []string {
	out := make([]string, 0, len(m))
	for k := range m {
		out = append(out, k)
	}
	sort.Strings(out)
	return out
}

func sortedKeysS(m map[string]string) []string {
	out := make([]string, 0, len(m))
	for k := range m {
		out = append(out, k)
	}
	sort.Strings(out)
	return out
}
