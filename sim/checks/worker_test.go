package checks

import (
	"testing"

	"github.com/emitter-io/emitter/verifsim/kernel"
)

// TestWorker is the entry point of one worker process (see bin/check).
func TestWorker(t *testing.T) { kernel.WorkerMain(t) }

// TestReplay re-executes one replay file.
func TestReplay(t *testing.T) { kernel.ReplayMain(t) }
