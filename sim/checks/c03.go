package checks

import (
	"bytes"
	"context"
	"encoding/json"
	"fmt"
	"io"
	"net"
	"net/http"
	"net/url"
	"strings"
	"time"

	"github.com/eclipse/paho.mqtt.golang/packets"
	"github.com/emitter-io/emitter/internal/security"
	"github.com/emitter-io/emitter/internal/security/license"
	"github.com/emitter-io/emitter/verifsim/kernel"
	"github.com/emitter-io/emitter/verifsim/model"
	"github.com/emitter-io/emitter/verifsim/mqttc"
	"github.com/emitter-io/emitter/verifsim/simnet"
	"github.com/emitter-io/emitter/verifsim/world"
)

// C03 — channel keys authorize exactly what they were issued for.
// C11 — derived keys never exceed their parent or the request.
// Both run in the same world: one real broker, keys minted through real keygen
// requests (or forged with the license's own cipher for the contract clauses),
// every entry point exercised through real MQTT requests, the clock advanced
// around key expiry, keys banned and unbanned.

func init() {
	kernel.Register(&kernel.World{
		Property: "C03", Bubble: true, Run: func(c *kernel.Ctx) { runAuthz(c, "C03") }, RunsPerProc: 100, RunTimeout: 300 * time.Second,
		Rule:        "one run = one real broker (license v1/v2/v3 by tape) and a set of keys: minted by real keygen requests (targets from the grammar {a,b,c,+,trailing #} of depth 1-4, every subset of r/w/s/l/p, ttl none / 20 s / 200 s) or forged with the license's cipher (foreign contract id, wrong signature, wrong master id, already expired, garbage, key of another license); the tape then issues subscribe / publish / history / presence requests on channels of the same grammar, advances the clock across expiries (never within 1 s of one), bans and unbans keys; every reply is compared with a reference decision (decrypts, contract, not expired, not banned, permission for that entry point, target covers channel). The simulation decides expiry, ban state, contract validity and the permission per entry point; the target-covers-channel relation is only SAMPLED (coverage.distinct_abstract_states counts the distinct (target shape, channel shape, permission, operation, expiry class) tuples hit). non-trivial = >= 1 permitted and >= 1 refused operation; distinct = distinct canonical logs",
		Real:        []string{"broker.Service.Authorize", "security.Key (SetTarget, ValidateChannel, expiry)", "security.ParseChannel", "contract.SingleContractProvider", "keygen / keyban / history / presence / pubsub entry points", "license ciphers v1-v3", "cluster.Swarm ban state"},
		Stub:        []string{"client sockets (simnet)", "weaveworks/mesh (simmesh, single node)", "clock (synctest)"},
		Assumptions: []string{"the HTTP contract provider is not simulated (needs a network)", "the grammar of targets and channels is sampled, not enumerated (enumeration would be model checking)"},
	})
	kernel.Register(&kernel.World{
		Property: "C11", Bubble: true, Run: func(c *kernel.Ctx) { runAuthz(c, "C11") }, RunsPerProc: 100, RunTimeout: 300 * time.Second,
		Rule:        "one run = the C03 world with tape-generated key-generation and link-extension requests: every parent kind (master, expired master, master of another license, extendable with each permission mask, ordinary, garbage), requested type strings over r/w/s/l/p/e and junk letters, ttl none / 20 s / 200 s, channels valid / invalid / wildcard / with '#/'; every returned key is decrypted with the license's cipher and must have no master bit, permissions within the request (and the parent for extensions), the parent's contract / signature / master id, exactly the requested target (for extensions: channel + the requesting connection's id) and the requested expiry against the simulated clock; refused requests must be refused; the returned key is then USED (subscribe/publish, also from another connection, also after expiry) and an extendable key must be refused for publish / subscribe / link auto-subscribe. non-trivial = >= 1 key minted and used; distinct = distinct canonical logs",
		Real:        []string{"keygen.OnRequest / CreateKey / ExtendKey", "link service", "pubsub entry points", "broker.Service.Authorize", "license ciphers"},
		Stub:        []string{"client sockets (simnet)", "weaveworks/mesh (simmesh, single node)", "clock (synctest)"},
		Assumptions: []string{"parent kind x type string x channel shape is sampled"},
	})
}

type azWorld struct {
	c      *kernel.Ctx
	prop   string
	b      *world.Broker
	lic    world.Lic
	cipher license.Cipher
	keys   []*model.KeyInfo
	cl     []*mqttc.Client
	permit int
	refuse int
	wkey   string
	nwill  int
}

// willOK connects a client whose last will is addressed with the key, drops the connection
// and reports whether the will was published: a watcher that holds a subscription on the
// channel with a fully capable key receives it or not.
func (w *azWorld) willOK(key string, lv []string) bool {
	watcher := w.cl[0]
	if w.wkey == "" {
		w.wkey = world.Keygen(w.c, watcher, w.lic.Master, "#/", "rw", 0)
	}
	watcher.Recv()
	watcher.Send(watcher.Subscribe(w.wkey + "/" + model.Join(lv)))
	world.Settle()
	watcher.Recv()
	w.nwill++
	pl := fmt.Sprintf("will-%d", w.nwill)
	v := w.b.Attach("willer")
	world.ConnectClient(w.c, v, "willer", "", &mqttc.Will{Topic: key + "/" + model.Join(lv), Payload: []byte(pl)})
	v.Conn.Close()
	v.Gone = true
	world.Settle()
	pk, _ := watcher.Recv()
	got := false
	for _, x := range pk {
		if pub, y := x.(*packets.PublishPacket); y && string(pub.Payload) == pl {
			got = true
		}
	}
	watcher.Send(watcher.Unsubscribe(w.wkey + "/" + model.Join(lv)))
	world.Settle()
	watcher.Recv()
	return got
}

var azLits = []string{"a", "b", "c"}

func (w *azWorld) genLevels(maxDepth int, plus, hash bool) []string {
	t := w.c.Tape
	d := t.Range(1, maxDepth)
	var lv []string
	for i := 0; i < d; i++ {
		if plus && t.Chance(1, 4) {
			lv = append(lv, "+")
		} else {
			lv = append(lv, azLits[t.Choose(3)])
		}
	}
	if hash && t.Chance(1, 4) {
		if t.Chance(1, 5) {
			lv = nil
		}
		lv = append(lv, "#")
	}
	return lv
}

func shapeOf(lv []string) string {
	s := ""
	for _, l := range lv {
		switch l {
		case "+", "#":
			s += l
		default:
			s += "x"
		}
	}
	return s
}

func (w *azWorld) forge(name string, mutate func(k security.Key)) *model.KeyInfo {
	k := security.Key(make([]byte, 24))
	l, _ := license.Parse(w.lic.License)
	k.SetSalt(999)
	k.SetMaster(uint16(l.Master()))
	k.SetContract(l.Contract())
	k.SetSignature(l.Signature())
	k.SetPermissions(security.AllowReadWrite | security.AllowStoreLoad | security.AllowPresence)
	k.SetTarget("#/")
	mutate(k)
	s, err := w.cipher.EncryptKey(k)
	if err != nil {
		w.c.Harnessf("encrypt: %v", err)
	}
	return &model.KeyInfo{Name: name, Key: s, Decrypts: true, Contract: false, Perms: k.Permissions(), Target: "#/"}
}

// subscribeOK etc. perform one operation and report whether the broker accepted it.
func (w *azWorld) subscribeOK(cl *mqttc.Client, key string, lv []string) bool {
	p := cl.Subscribe(key + "/" + model.Join(lv))
	cl.Send(p)
	world.Settle()
	pk, _ := cl.Recv()
	ok := false
	for _, x := range pk {
		if sa, y := x.(*packets.SubackPacket); y && sa.MessageID == p.MessageID {
			ok = sa.ReturnCodes[0] != 0x80
		}
	}
	if ok {
		cl.Send(cl.Unsubscribe(key + "/" + model.Join(lv)))
		world.Settle()
		cl.Recv()
	}
	return ok
}

func (w *azWorld) publishOK(cl *mqttc.Client, key string, lv []string) bool {
	p := cl.Publish(key+"/"+model.Join(lv), []byte("x"), false, true)
	cl.Send(p)
	world.Settle()
	pk, _ := cl.Recv()
	if len(pk) == 0 {
		w.c.Harnessf("publish: no PUBACK (connection dead?)")
	}
	for _, x := range pk {
		if pub, y := x.(*packets.PublishPacket); y && pub.TopicName == "emitter/error/" {
			return false
		}
	}
	return true
}

func (w *azWorld) requestOK(cl *mqttc.Client, name string, body map[string]any) (bool, *world.Resp) {
	r, _ := world.Request(w.c, cl, name, body)
	if r == nil {
		// history replies carry no status field on success
		return true, nil
	}
	return r.Status == 200 || (r.Status == 0 && r.Message == ""), r
}

func runAuthz(c *kernel.Ctx, prop string) {
	t := c.Tape
	c.SleepToEpoch()
	w := &azWorld{c: c, prop: prop}
	w.lic = world.Licenses[t.Choose(3)]
	l, _ := license.Parse(w.lic.License)
	w.cipher, _ = l.Cipher()
	w.b = world.StartBroker(c, world.BrokerOpts{Lic: w.lic, Cluster: true, NodeName: "00:00:00:00:00:01", Advertise: "10.0.0.1:4000", StateDir: ":memory:", Storage: "inmemory", Matcher: []string{"", "mqtt"}[t.Choose(2)]})
	defer w.b.Close()
	c.Logf("lic=v%d matcher=%q", w.lic.Ver, w.b.Opts.Matcher)
	for i := 0; i < 2; i++ {
		cl := w.b.Attach(fmt.Sprintf("c%d", i))
		world.ConnectClient(c, cl, fmt.Sprintf("c%d", i), "", nil)
		w.cl = append(w.cl, cl)
	}
	if prop == "C11" {
		runC11(w)
		return
	}
	// ---- keys ---------------------------------------------------------------
	nk := t.Range(3, 7)
	for i := 0; i < nk; i++ {
		target := w.genLevels(3, true, true)
		typ := ""
		for _, ch := range "rwslp" {
			if t.Chance(3, 5) {
				typ += string(ch)
			}
		}
		ttl := []int{0, 0, 20, 200}[t.Choose(4)]
		r, _ := world.Request(c, w.cl[0], "keygen", map[string]any{"key": w.lic.Master, "channel": model.Join(target), "type": typ, "ttl": ttl})
		if r == nil || r.Status != 200 {
			c.Check("undergrant", "keygen", "the master key could not mint a key for %s type %q: %+v", model.Join(target), typ, r)
			continue
		}
		ki := &model.KeyInfo{Name: fmt.Sprintf("k%d[%s %s ttl=%d]", i, model.Join(target), typ, ttl), Key: r.Key, Decrypts: true, Contract: true, Perms: model.PermsOf(typ), Target: model.Join(target)}
		if ttl > 0 {
			ki.Expires = time.Unix(time.Now().Unix(), 0).Add(time.Duration(ttl) * time.Second)
		}
		w.keys = append(w.keys, ki)
	}
	other, _ := license.Parse(world.Licenses[3+t.Choose(3)].License)
	w.keys = append(w.keys,
		w.forge("forged-foreign-contract", func(k security.Key) { k.SetContract(k.Contract() + 1) }),
		w.forge("forged-wrong-signature", func(k security.Key) { k.SetSignature(k.Signature() ^ 0x10) }),
		w.forge("forged-wrong-master", func(k security.Key) { k.SetMaster(k.Master() + 1) }),
		w.forge("forged-other-license-ids", func(k security.Key) {
			k.SetContract(other.Contract())
			k.SetSignature(other.Signature())
			k.SetMaster(uint16(other.Master()))
		}),
		&model.KeyInfo{Name: "garbage", Key: "abcdefghijklmnopqrstuvwxyz012345"},
		&model.KeyInfo{Name: "other-license-master", Key: world.Licenses[3+t.Choose(3)].Master},
	)
	exp := w.forge("forged-expired", func(k security.Key) { k.SetExpires(time.Now().Add(-100 * time.Second)) })
	exp.Contract, exp.Expires = true, time.Now().Add(-100*time.Second)
	w.keys = append(w.keys, exp)

	steps := t.Range(20, 120)
	for s := 0; s < steps && !t.Exhausted(); s++ {
		c.Step()
		k := w.keys[t.Choose(len(w.keys))]
		cl := w.cl[t.Choose(len(w.cl))]
		// never decide within 1 s of an expiry
		for _, kk := range w.keys {
			if !kk.Expires.IsZero() {
				if d := kk.Expires.Sub(time.Now()); d > -1500*time.Millisecond && d < 1500*time.Millisecond {
					w.advance(3 * time.Second)
				}
			}
		}
		now := time.Now()
		expClass := "none"
		if !k.Expires.IsZero() {
			expClass = "future"
			if !now.Before(k.Expires) {
				expClass = "past"
			}
		}
		switch op := t.Choose(20); {
		case op < 6: // subscribe: read
			lv := w.genLevels(4, true, w.b.Opts.Matcher == "mqtt" || t.Chance(1, 3))
			got := w.subscribeOK(cl, k.Key, lv)
			w.decide("subscribe", k, model.PermRead, lv, got, expClass)
		case op < 10: // publish: write, static channels only
			lv := w.genLevels(4, false, false)
			got := w.publishOK(cl, k.Key, lv)
			w.decide("publish", k, model.PermWrite, lv, got, expClass)
		case op < 11: // last will: a publish made on behalf of a connection that ended
			lv := w.genLevels(4, false, false)
			got := w.willOK(k.Key, lv)
			w.decide("will", k, model.PermWrite, lv, got, expClass)
		case op < 13: // history: load
			lv := w.genLevels(4, true, false)
			got, _ := w.requestOK(cl, "history", map[string]any{"key": k.Key, "channel": k.Key + "/" + model.Join(lv)})
			w.decide("history", k, model.PermLoad, lv, got, expClass)
		case op < 15: // presence
			lv := w.genLevels(4, false, false)
			got, _ := w.requestOK(cl, "presence", map[string]any{"key": k.Key, "channel": model.Join(lv), "status": true})
			w.decide("presence", k, model.PermPresence, lv, got, expClass)
		case op < 17: // clock
			d := []time.Duration{time.Second, 10 * time.Second, 25 * time.Second, 100 * time.Second}[t.Choose(4)]
			w.advance(d)
			c.Logf("advance %v", d)
		default: // ban / unban
			if !k.Decrypts || !k.Contract {
				break
			}
			ban := !k.Banned
			world.Advance(c, time.Duration(t.Range(1, 50))*time.Microsecond)
			r, _ := world.Request(c, cl, "keyban", map[string]any{"secret": w.lic.Master, "target": k.Key, "banned": ban})
			if r == nil || r.Status != 200 {
				c.Check("undergrant", "keyban", "keyban request for a key of the same contract was refused: %+v", r)
				break
			}
			k.Banned = ban
			c.Logf("keyban %s banned=%v", k.Name, ban)
			c.Fault("key-ban-toggle")
			if ban {
				w.otherSpellings(cl, k)
			}
		}
	}
	if w.permit > 0 && w.refuse > 0 {
		c.NonTrivial()
	}
}

// otherSpellings: the ban is on the key, not on one way of writing it. Strings that differ from the
// banned key only in how a decoder might read them (the other base64 alphabet, padding, case of one
// character) are tried: one that decrypts to the very same key bytes is the same key and must be refused
// while the ban is in force. (A string that decrypts to different bytes is another key: not this check's
// business.)
func (w *azWorld) otherSpellings(cl *mqttc.Client, k *model.KeyInfo) {
	orig, err := w.cipher.DecryptKey([]byte(k.Key))
	if err != nil {
		return
	}
	variants := map[string]bool{}
	variants[strings.ReplaceAll(k.Key, "-", "+")] = true
	variants[strings.ReplaceAll(k.Key, "_", "/")] = true
	variants[strings.ReplaceAll(strings.ReplaceAll(k.Key, "-", "+"), "_", "/")] = true
	variants[k.Key+"="] = true
	variants[k.Key+"=="] = true
	variants[strings.ToUpper(k.Key[:1])+k.Key[1:]] = true
	variants[strings.ToLower(k.Key[:1])+k.Key[1:]] = true
	for _, v := range sortedKeys(variants) {
		if v == k.Key || strings.Contains(v, "/") {
			continue // a '/' ends the key part of a channel string
		}
		dec, err := w.cipher.DecryptKey([]byte(v))
		if err != nil || !bytes.Equal(dec, orig) {
			continue
		}
		w.c.Probe("second-spelling-of-a-key")
		lv := model.Levels(k.Target)
		for i := range lv {
			if lv[i] == "+" || lv[i] == "#" {
				lv[i] = "a"
			}
		}
		if len(lv) == 0 {
			lv = []string{"a"}
		}
		if w.subscribeOK(cl, v, lv) {
			w.c.Check("overgrant", "ban other-spelling", "key %s is banned, but the same key written as %q (it decrypts to the same bytes) is accepted", k.Name, v)
		}
	}
}

// advance moves the clock while keeping every client alive (120 s read deadline).
func (w *azWorld) advance(d time.Duration) {
	for d > 0 {
		hop := d
		if hop > 60*time.Second {
			hop = 60 * time.Second
		}
		for _, x := range w.cl {
			x.Send(mqttc.Ping())
		}
		world.Settle()
		world.Advance(w.c, hop)
		for _, x := range w.cl {
			x.Recv()
		}
		d -= hop
	}
}

// decide compares one observed authorization outcome with the reference decision.
func (w *azWorld) decide(op string, k *model.KeyInfo, need uint8, lv []string, got bool, expClass string) {
	c := w.c
	exp := model.Permitted(k, need, lv, time.Now())
	if op == "publish" {
		for _, l := range lv {
			if l == "+" || l == "#" {
				exp = false
			}
		}
	}
	if n := len(lv); n > 0 && lv[n-1] == "#" && !strings.HasSuffix(k.Target, "#/") && k.Decrypts && k.Contract {
		// the statement asks for "the same depth for exact targets" and also accepts
		// request wildcards "beyond the target's depth": whether a/b/#/ is within an
		// exact a/b/ key is left open, so it is not asserted
		c.Logf("%s %s on %s -> %v (not asserted)", op, k.Name, model.Join(lv), got)
		return
	}
	c.Logf("%s %s on %s -> %v (expected %v)", op, k.Name, model.Join(lv), got, exp)
	c.State(fmt.Sprintf("%s target=%s chan=%s need=%d exp=%s", op, shapeOf(model.Levels(k.Target)), shapeOf(lv), need, expClass))
	if got {
		w.permit++
	} else {
		w.refuse++
	}
	if got == exp {
		return
	}
	clause := "target"
	switch {
	case !k.Decrypts:
		clause = "decrypt"
	case !k.Contract:
		clause = "contract"
	case !k.Expires.IsZero() && !time.Now().Before(k.Expires):
		clause = "expiry"
	case k.Banned:
		clause = "ban"
	case k.Perms&need != need:
		clause = "permission"
	}
	disc := fmt.Sprintf("%s clause=%s target=%s chan=%s", op, clause, shapeOf(model.Levels(k.Target)), shapeOf(lv))
	if got {
		c.Check("overgrant", disc, "%s with key %s on channel %s was PERMITTED; the reference decision is refuse (clause %s)", op, k.Name, model.Join(lv), clause)
	} else {
		c.Check("undergrant", disc, "%s with key %s on channel %s was REFUSED; the key decrypts, its contract is valid, it is not expired or banned, has the permission and its target covers the channel", op, k.Name, model.Join(lv))
	}
}

// ---------------------------------------------------------------------------
// C11

// httpPost performs one HTTP POST through the broker's real listener stack on a simulated socket.
func httpPost(c *kernel.Ctx, root *simnet.Listener, path string, form url.Values) string {
	tr := &http.Transport{DialContext: func(ctx context.Context, network, addr string) (net.Conn, error) { return root.Dial("http"), nil }, DisableKeepAlives: true}
	type res struct {
		body string
		err  error
	}
	ch := make(chan res, 1)
	go func() {
		resp, err := (&http.Client{Transport: tr}).PostForm("http://broker"+path, form)
		if err != nil {
			ch <- res{"", err}
			return
		}
		b, _ := io.ReadAll(resp.Body)
		resp.Body.Close()
		ch <- res{string(b), nil}
	}()
	world.Settle()
	world.Advance(c, 1100*time.Millisecond) // the reply may wait for the listener's flush timer
	select {
	case r := <-ch:
		if r.err != nil {
			c.Harnessf("http post: %v", r.err)
		}
		return r.body
	default:
		c.Harnessf("http post did not complete")
	}
	return ""
}

func runC11(w *azWorld) {
	c, t := w.c, w.c.Tape
	root := simnet.NewListener()
	w.b.Svc.VerifServe(root)
	defer root.Close()
	l, _ := license.Parse(w.lic.License)
	type parent struct {
		name   string
		key    string
		master bool
		valid  bool // may mint / extend at all
		perms  uint8
		target string
		ext    bool
		banned bool
	}
	var parents []*parent
	parents = append(parents, &parent{name: "master", key: w.lic.Master, master: true, valid: true})
	expiredMaster := security.Key(make([]byte, 24))
	expiredMaster.SetSalt(5)
	expiredMaster.SetMaster(uint16(l.Master()))
	expiredMaster.SetContract(l.Contract())
	expiredMaster.SetSignature(l.Signature())
	expiredMaster.SetPermissions(security.AllowMaster)
	expiredMaster.SetExpires(time.Now().Add(-50 * time.Second))
	em, _ := w.cipher.EncryptKey(expiredMaster)
	parents = append(parents, &parent{name: "expired-master", key: em, master: true})
	parents = append(parents, &parent{name: "other-license-master", key: world.Licenses[3+t.Choose(3)].Master, master: true})
	parents = append(parents, &parent{name: "garbage", key: "abcdefghijklmnopqrstuvwxyz012345"})
	// extendable and ordinary keys minted by the master
	for i := 0; i < t.Range(2, 4); i++ {
		typ := ""
		for _, ch := range "rwslp" {
			if t.Chance(1, 2) {
				typ += string(ch)
			}
		}
		ext := t.Chance(2, 3)
		if ext {
			typ += "e"
		}
		target := model.Join(w.genLevels(2, false, false))
		r, _ := world.Request(c, w.cl[0], "keygen", map[string]any{"key": w.lic.Master, "channel": target, "type": typ, "ttl": 0})
		if r == nil || r.Status != 200 {
			c.Check("mint", "master-refused", "the master key could not mint %s %q: %+v", target, typ, r)
			continue
		}
		parents = append(parents, &parent{name: fmt.Sprintf("p%d[%s %s]", i, target, typ), key: r.Key, valid: ext, perms: model.PermsOf(typ), target: target, ext: ext})
	}
	minted := 0
	var prev struct {
		set          bool
		p            *parent
		typ, chanStr string
		ttl          int
		chanLv       []string
		badChan      bool
	}
	steps := t.Range(10, 60)
	for s := 0; s < steps && !t.Exhausted(); s++ {
		c.Step()
		p := parents[t.Choose(len(parents))]
		ci := t.Choose(len(w.cl))
		cl := w.cl[ci]
		if p.ext && p.valid && !p.master && t.Chance(1, 6) {
			// the extendable key is banned (or the ban lifted) with a real keyban request
			world.Advance(c, time.Duration(t.Range(1, 50))*time.Microsecond)
			if r, _ := world.Request(c, w.cl[0], "keyban", map[string]any{"secret": w.lic.Master, "target": p.key, "banned": !p.banned}); r != nil && r.Status == 200 {
				p.banned = !p.banned
				c.Logf("keyban %s banned=%v", p.name, p.banned)
				c.Fault("key-ban-toggle")
			}
		}
		typ := ""
		for _, ch := range "rwslpexm?" {
			if t.Chance(1, 3) {
				typ += string(ch)
			}
		}
		if t.Chance(1, 6) {
			// characters that name no permission: upper case, digits, blanks, and letters and symbols beyond ASCII
			// (their UTF-8 bytes lie above 0x7f and must not be taken for anything)
			odd := []string{"R", "W", "7", " ", "\u5b57", "\U0001f600", "\u00e9", "\uc5b4", "\U000b0000", "\U000f3000", "\u00f2", "\u0440"}[t.Choose(12)]
			at := t.Choose(len(typ) + 1)
			typ = typ[:at] + odd + typ[at:]
			c.Probe("keygen-type-with-characters-that-name-no-permission")
		}
		// a negative ttl asks for a key that has already expired; the extremes are what a 32-bit ttl can ask for
		// (decades into the past: before the epoch of the key format; decades ahead)
		ttl := []int{0, 20, 200, -30, 0, 20, 200, -30, -600000000, -2000000000, 2147483647}[t.Choose(11)]
		var chanLv []string
		chanStr := ""
		badChan := false
		if p.master || !p.ext || t.Chance(1, 5) {
			chanLv = w.genLevels(3, t.Chance(1, 4), t.Chance(1, 3))
			chanStr = model.Join(chanLv)
			if t.Chance(1, 8) {
				chanStr = strings.TrimSuffix(chanStr, "/")
				badChan = true
			}
		} else {
			chanLv = model.Levels(p.target) // extension requests name the extendable channel
			chanStr = p.target
			if t.Chance(1, 4) {
				chanLv = w.genLevels(3, false, false) // or a channel the parent does not cover
				chanStr = model.Join(chanLv)
			}
		}
		if prev.set && t.Chance(1, 6) {
			// the very same request again, some seconds later (a client that asks for its keys on every start):
			// the ttl counts from this request
			p, typ, ttl, chanLv, chanStr, badChan = prev.p, prev.typ, prev.ttl, prev.chanLv, prev.chanStr, prev.badChan
			w.advance(time.Duration(t.Range(2, 30)) * time.Second) // keeps the clients alive
			c.Probe("identical-keygen-request-repeated-later")
		}
		prev.set, prev.p, prev.typ, prev.ttl, prev.chanLv, prev.chanStr, prev.badChan = true, p, typ, ttl, chanLv, chanStr, badChan
		world.Advance(c, time.Duration(t.Range(1, 900))*time.Millisecond)
		reqAt := time.Now()
		viaHTTP := t.Chance(1, 4)
		early := false
		if !viaHTTP && !p.master && t.Chance(1, 6) {
			// a connection that asks for its extension before it has sent CONNECT (the broker serves emitter/
			// requests on any open connection): its private sub-channel is still named after that connection
			cl = w.b.Attach("early")
			early = true
			c.Probe("extension-requested-before-connect")
		}
		var r *world.Resp
		if viaHTTP {
			// the /keygen page of the broker's HTTP endpoint (real net/http server behind the real listener)
			form := url.Values{"key": {p.key}, "channel": {chanStr}, "ttl": {fmt.Sprint(ttl)}}
			for ch, f := range map[rune]string{'r': "sub", 'w': "pub", 's': "store", 'l': "load", 'p': "presence", 'e': "extend"} {
				if strings.ContainsRune(typ, ch) {
					form.Set(f, "on")
				}
			}
			body := httpPost(c, root, "/keygen", form)
			r = &world.Resp{Status: 401}
			if i := strings.Index(body, "key    : "); i >= 0 && len(body) >= i+9+32 {
				r = &world.Resp{Status: 200, Key: body[i+9 : i+9+32], Channel: chanStr}
			}
			c.Probe("keygen-over-http")
		} else {
			// a request may leave fields out: no type asks for no permission, no ttl for no expiry
			body := map[string]any{"key": p.key, "channel": chanStr, "type": typ, "ttl": ttl}
			if t.Chance(1, 6) {
				delete(body, "type")
				typ = ""
				c.Probe("keygen-request-without-type")
			}
			if t.Chance(1, 8) {
				delete(body, "ttl")
				ttl = 0
				c.Probe("keygen-request-without-ttl")
			}
			r, _ = world.Request(c, cl, "keygen", body)
		}
		if early {
			world.ConnectClient(c, cl, "early", "", nil)
		}
		ok := r != nil && r.Status == 200
		c.Logf("c%d keygen parent=%s channel=%s type=%q ttl=%d -> ok=%v", ci, p.name, chanStr, typ, ttl, ok)
		c.State(fmt.Sprintf("parent=%s type=%s chan=%s", strings.SplitN(p.name, "[", 2)[0], typ, shapeOf(chanLv)))
		mustRefuse := !p.valid || badChan || (viaHTTP && !p.master) // the page only mints with a master key
		if p.banned {
			mustRefuse = true // a banned key is refused for every operation, extending it included
		}
		extSuffix := ""
		if p.ext && !p.master {
			// extension: the channel (an optional '#/' suffix aside) must be static and covered by the parent
			base := chanLv
			if n := len(base); n > 0 && base[n-1] == "#" {
				base, extSuffix = base[:n-1], "#/"
			}
			for _, lvl := range base {
				if lvl == "+" || lvl == "#" {
					mustRefuse = true
				}
			}
			if len(base) == 0 || !model.Covers(p.target, base) {
				mustRefuse = true
			}
			chanLv = base
		}
		if ok && mustRefuse {
			c.Check("mint", fmt.Sprintf("parent=%s", strings.SplitN(p.name, "[", 2)[0]), "parent %s must not be able to mint a key for channel %q, but got one", p.name, chanStr)
		}
		if !ok {
			if !mustRefuse && p.master {
				c.Check("mint", "master-refused", "a valid master key was refused for channel %q type %q: %+v", chanStr, typ, r)
			} else if !mustRefuse {
				c.Check("mint", "extension-refused", "extendable key %s was refused for an extension on %q, which its target covers: %+v", p.name, chanStr, r)
			}
			continue
		}
		if mustRefuse {
			continue
		}
		// ---- inspect the returned key -------------------------------------
		k, err := w.cipher.DecryptKey([]byte(r.Key))
		if err != nil {
			c.Check("identity", "undecryptable", "the returned key does not decrypt under the broker's license: %v", err)
			continue
		}
		minted++
		requested := model.PermsOf(typ)
		allowed := requested
		if !p.master {
			allowed = requested & p.perms
		}
		allowed &^= model.PermExtend * b2u(!p.master) // an extension never carries 'extend' itself
		if k.Permissions()&security.AllowMaster != 0 {
			c.Check("master-bit", fmt.Sprintf("parent=%s", strings.SplitN(p.name, "[", 2)[0]), "a derived key carries the master permission (type %q)", typ)
		}
		if extra := k.Permissions() &^ allowed &^ security.AllowExecute; extra != 0 {
			c.Check("perm", fmt.Sprintf("master=%v", p.master), "derived key has permissions %08b beyond what was requested%s: requested %q (%08b), parent %s has %08b", extra, map[bool]string{true: "", false: " and held by the parent"}[p.master], typ, requested, p.name, p.perms)
		}
		if k.Contract() != l.Contract() || k.Signature() != l.Signature() || uint32(k.Master()) != l.Master() {
			c.Check("identity", "fields", "derived key does not keep the parent's contract / signature / master id")
		}
		wantExp := int64(0)
		if ttl != 0 {
			wantExp = reqAt.Unix() + int64(ttl)
		}
		gotExp := int64(0)
		if !k.Expires().Equal(time.Unix(0, 0).UTC()) {
			gotExp = k.Expires().Unix()
		}
		if ttl < -1000 {
			// so far in the past that the key format may not be able to say when: any date that has passed will do
			if gotExp == 0 || gotExp >= reqAt.Unix() {
				c.Check("expiry", fmt.Sprintf("ttl=%d", ttl), "a key requested with ttl %d at simulated second %d (expired long ago) expires at %d", ttl, reqAt.Unix(), gotExp)
			}
		} else if gotExp != wantExp && !(ttl != 0 && gotExp-wantExp >= 0 && gotExp-wantExp <= 1) {
			c.Check("expiry", fmt.Sprintf("ttl=%d", ttl), "derived key expires at %d, requested ttl %d at simulated second %d", gotExp, ttl, reqAt.Unix())
		}
		// target: exactly the requested channel (extension: channel + connection id)
		wantTarget := chanStr
		useLv := chanLv
		if !p.master {
			wantTarget = model.Join(chanLv) + cl.ID + "/" + extSuffix
			useLv = append(append([]string(nil), chanLv...), cl.ID)
			if r.Channel != wantTarget {
				c.Check("target", "reply-channel", "extension reply names channel %q, expected %q", r.Channel, wantTarget)
			}
		}
		ref := security.Key(make([]byte, 24))
		ref.SetTarget(wantTarget)
		if string(k[12:15]) != string(ref[12:15]) || string(k[16:20]) != string(ref[16:20]) {
			c.Check("target", fmt.Sprintf("master=%v", p.master), "derived key's target differs from the requested channel %q", wantTarget)
		}
		// ---- use it -----------------------------------------------------------
		staticUse := true
		for _, lvl := range useLv {
			if lvl == "+" || lvl == "#" {
				staticUse = false
			}
		}
		ki := &model.KeyInfo{Name: "derived", Key: r.Key, Decrypts: true, Contract: true, Perms: k.Permissions(), Target: wantTarget}
		if ttl < 0 {
			if staticUse && (w.subscribeOK(cl, r.Key, useLv) || w.publishOK(cl, r.Key, useLv)) {
				c.Check("expiry", "negative-ttl", "a key requested with ttl %d (already expired) is accepted", ttl)
			}
			continue
		}
		if k.Permissions()&security.AllowExtend != 0 && k.Permissions()&security.AllowRead != 0 {
			// also with wildcard channels inside its target
			for _, wl := range [][]string{append(append([]string(nil), useLv...), "+"), append(append([]string(nil), useLv[:len(useLv)-1]...), "+")} {
				if model.Covers(wantTarget, wl) && w.subscribeOK(cl, r.Key, wl) {
					c.Check("ext-use", "wildcard-subscribe", "a key with the extend permission was accepted for a subscription on %s", model.Join(wl))
				}
			}
		}
		if staticUse {
			if k.Permissions()&security.AllowExtend != 0 {
				// an extendable key cannot itself be used to publish or subscribe
				if w.subscribeOK(cl, r.Key, useLv) || w.publishOK(cl, r.Key, useLv) {
					c.Check("ext-use", "pubsub", "a key with the extend permission was accepted for publish or subscribe")
				}
				if k.Permissions()&security.AllowWrite != 0 && w.willOK(r.Key, useLv) {
					c.Check("ext-use", "last-will", "a key with the extend permission was accepted for the last will of a connection (a publish)")
				}
				body, _ := json.Marshal(map[string]any{"name": "lx", "key": r.Key, "channel": model.Join(useLv), "subscribe": true})
				cl.Send(cl.Publish("emitter/link/", body, false, false))
				world.Settle()
				cl.Recv()
				_, entries := w.b.Svc.VerifTrie().VerifDump()
				for _, e := range entries {
					if e.ID == cl.ID && len(e.Ssid) > 1 && e.Ssid[0] == l.Contract() {
						c.Check("ext-use", "link-autosubscribe", "a link request with auto-subscribe used an extendable key to subscribe the connection")
						cl.Send(cl.Unsubscribe(r.Key + "/" + model.Join(useLv)))
						world.Settle()
						cl.Recv()
					}
				}
			} else {
				if got := w.subscribeOK(cl, r.Key, useLv); got != (ki.Perms&model.PermRead != 0) {
					c.Check("perm", "use-subscribe", "derived key (perms %08b) subscribe on its own target -> %v", ki.Perms, got)
				}
				if got := w.publishOK(cl, r.Key, useLv); got != (ki.Perms&model.PermWrite != 0) {
					c.Check("perm", "use-publish", "derived key (perms %08b) publish on its own target -> %v", ki.Perms, got)
				}
				// outside its target
				outside := append(append([]string(nil), useLv...), "zz")
				if !model.Covers(wantTarget, outside) && w.publishOK(cl, r.Key, outside) {
					c.Check("target", "use-outside", "derived key for %q was accepted on %q", wantTarget, model.Join(outside))
				}
				if !p.master {
					// another connection asking for the same extension gets another sub-channel and cannot use this one
					oc := w.cl[1-ci]
					r2, _ := world.Request(c, oc, "keygen", map[string]any{"key": p.key, "channel": chanStr, "type": typ, "ttl": ttl})
					if r2 != nil && r2.Status == 200 {
						if r2.Channel == r.Channel {
							c.Check("target", "binding", "two connections were given the same private sub-channel %q", r.Channel)
						}
						if ki.Perms&model.PermWrite != 0 && w.publishOK(oc, r2.Key, useLv) {
							c.Check("target", "binding-use", "the key extended for connection %d is accepted on connection %d's private sub-channel", 1-ci, ci)
						}
					}
				}
			}
		}
		if ttl > 0 && ttl < 100000 && !early && t.Chance(1, 3) && staticUse && ki.Perms&model.PermWrite != 0 && k.Permissions()&security.AllowExtend == 0 {
			w.advance(time.Duration(ttl+3) * time.Second)
			if w.publishOK(cl, r.Key, useLv) {
				c.Check("expiry", "use-after", "derived key with ttl %d is still accepted %d s after it was issued", ttl, ttl+3)
			}
			c.Probe("used-after-expiry")
		}
	}
	if minted > 0 {
		c.NonTrivial()
	}
}

func b2u(b bool) uint8 {
	if b {
		return 1
	}
	return 0
}
