package checks

import (
	"fmt"
	"path/filepath"
	"sort"
	"strings"
	"time"

	"github.com/eclipse/paho.mqtt.golang/packets"
	"github.com/emitter-io/emitter/verifsim/kernel"
	"github.com/emitter-io/emitter/verifsim/model"
	"github.com/emitter-io/emitter/verifsim/mqttc"
	"github.com/emitter-io/emitter/verifsim/world"
)

// C07, cluster campaign — every broker stores what its own clients publish; a
// subscription with last=N asks the local store and, through a survey over the
// mesh, the stores of the other brokers, and is sent the last N of everything.
// Two or three brokers with stores, publishes with a ttl on any of them at
// least one second apart, subscriptions with last=N on any of them; the replay
// must be the last N stored matching messages cluster-wide, in time order,
// before the SUBACK.

type c07cMsg struct {
	levels  []string
	payload string
	second  int64
	seq     int
	broker  int
}

func runC07Cluster(c *kernel.Ctx) {
	t := c.Tape
	c.SleepToEpoch()
	lic := world.Licenses[t.Choose(3)]
	n := t.Range(2, 3)
	kinds := make([]string, n)
	cl := world.NewCluster(c, n, lic, func(i int, o *world.BrokerOpts) {
		o.StateDir = ":memory:"
		o.Storage = "inmemory"
		if t.Chance(1, 3) {
			o.Storage, o.StorageDir = "ssd", filepath.Join(c.Scratch, fmt.Sprintf("store%d", i))
		}
		kinds[i] = o.Storage
	})
	defer cl.Close()
	cl.LinkAll()
	cl.Drain(2000)
	cl.AdvanceNet(6 * time.Second)
	cl.Drain(2000)
	c.Logf("cluster campaign: brokers=%d stores=%v lic=v%d", n, kinds, lic.Ver)
	admin := cl.Brokers[0].Attach("admin")
	world.ConnectClient(c, admin, "admin", "", nil)
	key := world.Keygen(c, admin, lic.Master, "#/", "rwls", 0)
	pubs := make([]*mqttc.Client, n)
	for i := range pubs {
		pubs[i] = cl.Brokers[i].Attach(fmt.Sprintf("pub%d", i))
		world.ConnectClient(c, pubs[i], fmt.Sprintf("pub%d", i), "", nil)
	}
	cl.Drain(2000)
	pump := func(rounds int) {
		for i := 0; i < rounds; i++ {
			cl.AdvanceNet(5 * time.Millisecond)
			cl.Drain(2000)
		}
	}
	keepalive := func() {
		for _, p := range append([]*mqttc.Client{admin}, pubs...) {
			p.Send(mqttc.Ping())
		}
		world.Settle()
		for _, p := range append([]*mqttc.Client{admin}, pubs...) {
			p.Recv()
		}
	}
	lits := []string{"a", "b"}
	var stored []*c07cMsg
	seq, nsub := 0, 0
	steps := t.Range(8, 40)
	for s := 0; s < steps && !t.Exhausted(); s++ {
		c.Step()
		switch k := t.Choose(10); {
		case k < 6: // a publish with a ttl on one of the brokers, its own second
			cl.AdvanceNet(time.Duration(t.Range(1000, 2500)) * time.Millisecond)
			bi := t.Choose(n)
			lv := []string{lits[t.Choose(2)]}
			if t.Chance(1, 2) {
				lv = append(lv, lits[t.Choose(2)])
			}
			seq++
			m := &c07cMsg{levels: lv, payload: fmt.Sprintf("m%d", seq), second: time.Now().Unix(), seq: seq, broker: bi}
			pubs[bi].Send(pubs[bi].Publish(key+"/"+model.Join(lv)+"?ttl=3600", []byte(m.payload), false, false))
			world.Settle()
			pump(3) // live forwarding to the other brokers
			stored = append(stored, m)
			c.Logf("pub%d@b%d publishes %s=%s ttl=3600", bi, bi, model.Join(lv), m.payload)
		case k < 9: // a fresh client subscribes with last=N on one of the brokers
			bi := t.Choose(n)
			lv := []string{lits[t.Choose(2)]}
			if t.Chance(1, 3) {
				lv = append(lv, lits[t.Choose(2)])
			}
			last := []int{1, 1, 2, 3, 5, 50}[t.Choose(6)]
			nsub++
			sub := cl.Brokers[bi].Attach(fmt.Sprintf("sub%d", nsub))
			world.ConnectClient(c, sub, fmt.Sprintf("sub%d", nsub), "", nil)
			sub.Send(sub.Subscribe(fmt.Sprintf("%s/%s?last=%d", key, model.Join(lv), last)))
			world.Settle()
			var got []string
			acked := false
			for round := 0; round < 500 && !acked; round++ { // the survey waits at most 2 s for the other brokers
				pump(1)
				pk, err := sub.Recv()
				if err != nil {
					c.Failf("replay-set", "undecodable", "%v", err)
				}
				for _, x := range pk {
					switch v := x.(type) {
					case *packets.SubackPacket:
						acked = true
					case *packets.PublishPacket:
						if !acked && v.TopicName != "emitter/error/" {
							got = append(got, v.TopicName+"="+string(v.Payload))
						}
					}
				}
			}
			if !acked {
				c.Check("replay-order", "no-suback cluster", "no SUBACK within 2.5 simulated seconds of a subscription with last=%d on b%d", last, bi)
			}
			// expected: the last N matching messages of all stores, oldest first
			var match []*c07cMsg
			for _, m := range stored {
				if model.MatchEmitter(lv, m.levels) {
					match = append(match, m)
				}
			}
			sort.Slice(match, func(i, j int) bool { return match[i].seq < match[j].seq })
			if len(match) > last {
				match = match[len(match)-last:]
			}
			var exp []string
			remote := 0
			for _, m := range match {
				exp = append(exp, model.Join(m.levels)+"="+m.payload)
				if m.broker != bi {
					remote++
				}
			}
			c.Logf("sub%d@b%d subscribes %s last=%d -> replay %v", nsub, bi, model.Join(lv), last, got)
			if remote > 0 {
				c.NonTrivial()
				c.Probe("replay-includes-messages-stored-on-another-broker")
			}
			c.State(fmt.Sprintf("cluster sub last=%d exp=%d remote=%d", min(last, 6), min(len(exp), 5), min(remote, 3)))
			if strings.Join(got, ",") != strings.Join(exp, ",") {
				rule := "replay-set"
				gs, es := append([]string(nil), got...), append([]string(nil), exp...)
				sort.Strings(gs)
				sort.Strings(es)
				if strings.Join(gs, ",") == strings.Join(es, ",") {
					rule = "replay-order"
				}
				c.Check(rule, fmt.Sprintf("cluster last=%d remote=%d", min(last, 6), min(remote, 3)), "subscription on b%d to %s with last=%d was sent %v; the last %d stored matching messages of the cluster (stores of %d brokers) are %v", bi, model.Join(lv), last, got, last, n, exp)
			}
			sub.Send(mqttc.Disconnect())
			world.Settle()
			pump(3)
		default:
			keepalive()
			cl.AdvanceNet(time.Duration(t.Range(1, 20)) * time.Second)
			cl.Drain(2000)
		}
		if s%8 == 7 {
			keepalive()
		}
	}
}
