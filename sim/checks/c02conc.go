package checks

import (
	"fmt"
	"sort"
	"strings"

	"github.com/eclipse/paho.mqtt.golang/packets"
	"github.com/emitter-io/emitter/internal/message"
	"github.com/emitter-io/emitter/internal/verifauto"
	"github.com/emitter-io/emitter/verifsim/kernel"
	"github.com/emitter-io/emitter/verifsim/model"
	"github.com/emitter-io/emitter/verifsim/mqttc"
	"github.com/emitter-io/emitter/verifsim/world"
)

// C02, concurrent campaign — several connections subscribe and unsubscribe on the
// same branch of the subscription trie at the same time (each connection is
// served by its own goroutine). What a connection ends up holding depends only
// on its own requests, so whatever the interleaving: afterwards the trie holds
// exactly the acknowledged, not yet removed subscriptions and a publish reaches
// exactly their holders, once. The goroutines are interleaved at the boundaries
// tools/autoyield put around every mutex operation of internal/message,
// internal/service/pubsub and broker/conn.go (nobody parks while holding a mutex).

func runC02Concurrent(c *kernel.Ctx) {
	t := c.Tape
	c.SleepToEpoch()
	lic := world.Licenses[t.Choose(3)]
	mode := ""
	if t.Chance(1, 3) {
		mode = "mqtt"
	}
	b := world.StartBroker(c, world.BrokerOpts{Lic: lic, Matcher: mode, Cluster: true, NodeName: "00:00:00:00:00:01", Advertise: "10.0.0.1:4000", StateDir: ":memory:"})
	defer b.Close()
	admin := b.Attach("admin")
	world.ConnectClient(c, admin, "admin", "", nil)
	key := world.Keygen(c, admin, lic.Master, "#/", "rw", 0)
	filters := []string{"a/", "a/b/", "a/b/c/", "a/+/c/", "a/b/c/d/"}
	nc := t.Range(2, 4)
	var clients []*mqttc.Client
	held := make([]map[string]int, nc) // per connection: filter -> 1 while subscribed
	for i := 0; i < nc; i++ {
		cl := b.Attach(fmt.Sprintf("c%d", i))
		world.ConnectClient(c, cl, fmt.Sprintf("c%d", i), "", nil)
		clients = append(clients, cl)
		held[i] = map[string]int{}
	}
	c.Logf("concurrent campaign: lic=v%d mode=%q clients=%d", lic.Ver, mode, nc)
	apply := func(i int, sub bool, f string) {
		// a repeated subscription counts once (Conn.CanSubscribe: IncrementOnce): one unsubscribe removes it
		if sub {
			held[i][f] = 1
		} else {
			held[i][f] = 0
		}
	}
	expectAck := func(cl *mqttc.Client, i, n int, when string) {
		pk, err := cl.Recv()
		if err != nil {
			c.Failf("content", "undecodable", "c%d: %v", i, err)
		}
		acks := 0
		for _, p := range pk {
			switch a := p.(type) {
			case *packets.SubackPacket:
				acks++
				for _, rc := range a.ReturnCodes {
					if rc == 0x80 {
						c.Check("content", "refused "+when, "c%d: a subscription with a valid key was refused (%s)", i, when)
					}
				}
			case *packets.UnsubackPacket:
				acks++
			}
		}
		if acks != n {
			c.Check("content", "acks "+when, "c%d sent %d requests (%s) and got %d acknowledgements", i, n, when, acks)
		}
	}
	// sequential prefix
	for i, cl := range clients {
		for n := t.Range(0, 3); n > 0; n-- {
			f := filters[t.Choose(len(filters))]
			cl.Send(cl.Subscribe(key + "/" + f))
			world.Settle()
			expectAck(cl, i, 1, "prefix")
			apply(i, true, f)
			c.Logf("prefix: c%d subscribes %s", i, f)
		}
	}

	// concurrent phase: every client writes 1-3 requests at once; the connection goroutines are interleaved
	baton := kernel.NewBaton()
	baton.Auto = []string{"internal/message/", "internal/service/pubsub/", "internal/broker/conn.go"}
	baton.AutoSkip = []string{":Trie.Count:"}
	verifauto.Hook, verifauto.AcquireHook, verifauto.LockHook = baton.Hook, baton.AcquireHook, baton.LockHook
	defer func() { verifauto.Hook, verifauto.AcquireHook, verifauto.LockHook = nil, nil, nil }()
	defer baton.ReleaseAll()
	rounds := t.Range(1, 3)
	for r := 0; r < rounds; r++ {
		nreq := make([]int, nc)
		touched := map[string]int{}
		baton.SetActive(true)
		for i, cl := range clients {
			if t.Chance(1, 5) {
				continue
			}
			var buf []byte
			seen := map[string]bool{}
			for n := t.Range(1, 3); n > 0; n-- {
				f := filters[t.Choose(len(filters))]
				sub := t.Chance(1, 2)
				if held[i][f] > 0 && t.Chance(1, 2) {
					sub = false // mostly real removals
				}
				if sub {
					buf = append(buf, mqttc.Encode(cl.Subscribe(key+"/"+f))...)
				} else {
					buf = append(buf, mqttc.Encode(cl.Unsubscribe(key+"/"+f))...)
				}
				apply(i, sub, f)
				nreq[i]++
				seen[strings.SplitN(f, "/", 3)[0]] = true
				c.Logf("round %d: c%d %s %s", r, i, map[bool]string{true: "subscribes", false: "unsubscribes"}[sub], f)
			}
			for k := range seen {
				touched[k]++
			}
			cl.Write(buf)
			world.Settle() // its goroutine parks at its first boundary before the next client writes
		}
		for _, n := range touched {
			if n >= 2 {
				c.NonTrivial()
			}
		}
		_, stuck := baton.Drive(t, world.Settle, func(p *kernel.Parked, runnable, waiting int) {
			c.Logf("  a connection goroutine crosses %s (%d of %d can run)", p.Site, runnable, waiting)
			c.Fault("interleaving-at-mutex-boundary")
			c.Step()
		}, 3000)
		if stuck {
			c.Harnessf("C02 concurrent: %d tasks parked, none can run", baton.Waiting())
		}
		baton.ReleaseAll()
		world.Settle()
		for i, cl := range clients {
			expectAck(cl, i, nreq[i], "concurrent round")
		}
		// ---- the trie holds exactly what the connections hold
		want := map[string]bool{}
		for i, cl := range clients {
			for f, n := range held[i] {
				if n > 0 {
					want[fmt.Sprintf("%s %v", cl.ID, message.Ssid(model.Ssid(lic.Contract, model.Levels(f))))] = true
				}
			}
		}
		ids := map[string]int{}
		for i, cl := range clients {
			ids[cl.ID] = i
		}
		got := map[string]bool{}
		_, entries := b.Svc.VerifTrie().VerifDump()
		for _, e := range entries {
			if _, ok := ids[e.ID]; ok {
				got[fmt.Sprintf("%s %v", e.ID, e.Ssid)] = true
			}
		}
		var diff []string
		for k := range want {
			if !got[k] {
				diff = append(diff, fmt.Sprintf("missing: c%d %s", ids[strings.SplitN(k, " ", 2)[0]], strings.SplitN(k, " ", 2)[1]))
			}
		}
		for k := range got {
			if !want[k] {
				diff = append(diff, fmt.Sprintf("left over: c%d %s", ids[strings.SplitN(k, " ", 2)[0]], strings.SplitN(k, " ", 2)[1]))
			}
		}
		sort.Strings(diff)
		if len(diff) > 0 {
			c.Check("state", "concurrent", "after concurrent subscribe/unsubscribe requests of %d connections the subscription trie differs from what the connections were acknowledged: %s", nc, strings.Join(diff, "; "))
		}
		// ---- and a publish reaches exactly the holders, once
		for pi, ch := range []string{"a/", "a/b/", "a/b/c/", "a/x/c/", "a/b/c/d/"} {
			pl := fmt.Sprintf("probe-%d-%d", r, pi)
			admin.Send(admin.Publish(key+"/"+ch, []byte(pl), false, false))
			world.Settle()
			for i, cl := range clients {
				pk, err := cl.Recv()
				if err != nil {
					c.Failf("content", "undecodable", "c%d: %v", i, err)
				}
				n := 0
				for _, p := range pk {
					if pub, ok := p.(*packets.PublishPacket); ok && string(pub.Payload) == pl {
						n++
					}
				}
				exp := 0
				for f, cnt := range held[i] {
					if cnt > 0 && model.Match(mode, model.Levels(f), model.Levels(ch)) {
						exp = 1
					}
				}
				if n != exp {
					rule := "missing"
					if n > exp {
						rule = "extra"
					}
					c.Check(rule, "concurrent", "after concurrent subscribe/unsubscribe requests c%d received the publish on %s %d times, expected %d (it holds %v)", i, ch, n, exp, held[i])
				}
			}
			admin.Recv()
		}
		c.State(fmt.Sprintf("concurrent clients=%d round=%d entries=%d", nc, r, len(want)))
	}
}
