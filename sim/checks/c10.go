package checks

import (
	"fmt"
	"net"
	"strconv"
	"strings"
	"sync"
	"time"

	"github.com/eclipse/paho.mqtt.golang/packets"
	"github.com/emitter-io/emitter/internal/verifauto"
	"github.com/emitter-io/emitter/internal/verifyield"
	gws "github.com/gorilla/websocket"
	"github.com/emitter-io/emitter/verifsim/kernel"
	"github.com/emitter-io/emitter/verifsim/mqttc"
	"github.com/emitter-io/emitter/verifsim/simnet"
	"github.com/emitter-io/emitter/verifsim/world"
)

// C10 — concurrent delivery keeps packet framing and per-publisher order.

func init() {
	kernel.Register(&kernel.World{
		Property: "C10", Bubble: true, Run: runC10, RunsPerProc: 100, RunTimeout: 300 * time.Second,
		Rule: "one run = one real broker reached through its real listener stack (mux listener, sniffer, matchers, tcp server, net/http + gorilla upgrade for WebSocket clients) with flush rate 1/2/60/1000 by tape, 2-4 publishers and 1-3 stable subscribers (plain or WebSocket by tape). Every boundary between two critical sections of the write path (listener.Conn.Write entry / rate-limit decision / pending test / between enqueue and Flush / direct write; Flush entry and between its emptiness test and the lock; broker.Conn.Send; each fan-out step of pubsub.Publish) is a yield point: the goroutine parks and the tape decides who runs next, interleaved with feeding the next publish (payloads carry publisher and sequence number, QoS 0 or 1) and with clock advances (1 ms / 20 ms / 1.1 s: rate-limiter windows and the 1 s flush timer, whose goroutine parks at the same points). Oracle at quiescence: every subscriber's raw byte stream parses (paho) into complete packets with nothing left over, and per (publisher, channel) the sequence numbers are 1,2,3,... without gap, duplicate or inversion. non-trivial = >= 2 publishers delivered >= 3 messages each to a common subscriber; distinct = distinct canonical logs",
		Real:  []string{"listener stack (Listener, Conn.Write/enqueue/Flush, flush timer, rate limiter)", "websocketTransport + gorilla server side", "broker.Conn (Process, Send)", "pubsub.Publish fan-out", "mqtt encoder and its buffer pool"},
		Stub:  []string{"sockets (simnet)", "clock (synctest)", "goroutine scheduling at yield points (baton scheduler driven by the tape)"},
		Assumptions: []string{"interleavings are explored at critical-section granularity: a change that removes a lock without adding a yield point is invisible (DESIGN.md 9)", "each channel tree has one subscriber (several publishers per subscriber): the order in which pubsub.Publish visits several subscribers follows Go map iteration and would not replay; multi-subscriber fan-out is covered sequentially by C02", "no parking below websocketTransport.Write, which holds its mutex across the socket write"},
	})
}

// wsPipe adapts a gorilla client connection to mqttc.Pipe.
type wsPipe struct {
	c   *gws.Conn
	mu  sync.Mutex
	buf []byte
}

func (w *wsPipe) Write(b []byte) (int, error) { return len(b), w.c.WriteMessage(gws.BinaryMessage, b) }
func (w *wsPipe) Drain() []byte {
	w.mu.Lock()
	defer w.mu.Unlock()
	b := w.buf
	w.buf = nil
	return b
}
func (w *wsPipe) pump() {
	for {
		_, b, err := w.c.ReadMessage()
		w.mu.Lock()
		w.buf = append(w.buf, b...)
		w.mu.Unlock()
		if err != nil {
			return
		}
	}
}

func c10Dial(c *kernel.Ctx, root *simnet.Listener, name string, ws bool) *mqttc.Client {
	if !ws {
		return mqttc.New(name, root.Dial(name))
	}
	dialer := gws.Dialer{NetDial: func(network, addr string) (net.Conn, error) { return root.Dial(name), nil }, Subprotocols: []string{"mqttv3.1"}}
	type res struct {
		c   *gws.Conn
		err error
	}
	ch := make(chan res, 1)
	go func() {
		cc, _, err := dialer.Dial("ws://broker/", nil)
		ch <- res{cc, err}
	}()
	world.Settle()
	select {
	case r := <-ch:
		if r.err != nil {
			c.Harnessf("ws dial: %v", r.err)
		}
		p := &wsPipe{c: r.c}
		go p.pump()
		cl := mqttc.New(name, nil)
		cl.Pipe = p
		return cl
	default:
		c.Harnessf("ws handshake did not complete")
	}
	return nil
}

func runC10(c *kernel.Ctx) {
	t := c.Tape
	if c.Params["campaign"] != "narrow" && (c.Params["campaign"] == "wide" || t.Chance(1, 6)) {
		runC10Wide(c)
		return
	}
	if c.Params["campaign"] != "narrow" && (c.Params["campaign"] == "stall" || t.Chance(1, 10)) {
		runC10Stall(c)
		return
	}
	c.SleepToEpoch()
	baton := kernel.NewBaton()
	baton.NoParkUnder = []string{"websocketTransport).Write"} // that method holds its mutex across the socket write
	verifyield.Hook = baton.Hook
	defer func() { verifyield.Hook = nil }()
	// half of the runs also park at the boundaries tools/autoyield put around every mutex / sync.Map /
	// atomic operation of the delivery path (nobody parks while holding a mutex); a third of the runs
	// let the task that ran last run on with probability 3/4 (deep runs of one task)
	auto, sticky := t.Chance(1, 2), t.Chance(1, 3)
	if auto {
		baton.Auto = []string{"internal/network/listener/", "internal/network/websocket/", "internal/broker/conn.go", "internal/message/", "internal/service/pubsub/"}
		baton.AutoSkip = []string{":Conn.Len:", ":Trie.Count:"} // polled by the flush timers and the stats loop
		verifauto.Hook, verifauto.AcquireHook, verifauto.LockHook = baton.Hook, baton.AcquireHook, baton.LockHook
		defer func() { verifauto.Hook, verifauto.AcquireHook, verifauto.LockHook = nil, nil, nil }()
	}
	var last uint64
	pick := func(parked []*kernel.Parked) *kernel.Parked {
		if sticky {
			for _, p := range parked {
				if p.Goid == last && t.Chance(3, 4) {
					return p
				}
			}
		}
		p := parked[t.Choose(len(parked))]
		last = p.Goid
		return p
	}
	rate := []int{1, 2, 60, 1000}[t.Choose(4)]
	lic := world.Licenses[2]
	b := world.StartBroker(c, world.BrokerOpts{Lic: lic, Cluster: true, NodeName: "00:00:00:00:00:01", Advertise: "10.0.0.1:4000", StateDir: ":memory:", FlushRate: rate})
	defer b.Close()
	root := simnet.NewListener()
	b.Svc.VerifServe(root)
	defer root.Close()
	connect := func(name string, ws bool) *mqttc.Client {
		cl := c10Dial(c, root, name, ws)
		cl.Send(mqttc.Connect(name, "", nil))
		world.Settle()
		world.Advance(c, 1100*time.Millisecond) // replies may sit in the write queue until the flush timer
		if pk, err := cl.Recv(); err != nil || len(pk) == 0 {
			c.Harnessf("connect %s: %v (%d packets)", name, err, len(pk))
		}
		return cl
	}
	admin := connect("admin", false)
	var key string
	{
		body := fmt.Sprintf(`{"key":%q,"channel":"#/","type":"rw","ttl":0}`, lic.Master)
		admin.Send(admin.Publish("emitter/keygen/", []byte(body), false, false))
		world.Settle()
		world.Advance(c, 1100*time.Millisecond)
		pk, _ := admin.Recv()
		for _, x := range pk {
			if pub, ok := x.(*packets.PublishPacket); ok {
				s := string(pub.Payload)
				if i := strings.Index(s, `"key":"`); i >= 0 {
					key = s[i+7 : i+7+32]
				}
			}
		}
		if len(key) != 32 {
			c.Harnessf("keygen through the listener stack failed")
		}
	}
	np, ns := t.Range(2, 4), t.Range(1, 3)
	chans := []string{"a/", "a/b/"}
	var subs, pubs []*mqttc.Client
	subWS := make([]bool, ns)
	for i := 0; i < ns; i++ {
		subWS[i] = t.Chance(1, 3)
		s := connect(fmt.Sprintf("sub%d", i), subWS[i])
		s.Send(s.Subscribe(fmt.Sprintf("%s/s%d/", key, i))) // one subscriber per channel tree: the fan-out order over a Go map would not replay
		world.Settle()
		world.Advance(c, 1100*time.Millisecond)
		s.Recv()
		subs = append(subs, s)
	}
	pubChan := make([]string, np)
	for i := 0; i < np; i++ {
		pubs = append(pubs, connect(fmt.Sprintf("pub%d", i), t.Chance(1, 4)))
		pubChan[i] = fmt.Sprintf("s%d/%s", t.Choose(ns), chans[t.Choose(2)])
	}
	c.Logf("rate=%d pubs=%d subs=%d ws=%v auto=%v sticky=%v", rate, np, ns, subWS, auto, sticky)
	total := make([]int, np)
	fed := make([]int, np)
	for i := range total {
		total[i] = t.Range(3, 25)
	}
	baton.SetActive(true)
	var advanced time.Duration
	maxSteps := 1500
	for step := 0; step < maxSteps; step++ {
		c.Step()
		// a microsecond passes between any two scheduling steps: two goroutines never act at the same
		// simulated instant, so timers they arm never tie (which of two timers due at the same instant the
		// runtime fires first is not owned by anybody)
		time.Sleep(time.Microsecond)
		world.Settle()
		parked := baton.Parked()
		var feedable []int
		for i := range pubs {
			if fed[i] < total[i] {
				feedable = append(feedable, i)
			}
		}
		if len(parked) == 0 && len(feedable) == 0 {
			break
		}
		if c.Trace {
			var sites []string
			for _, p := range parked {
				sites = append(sites, fmt.Sprintf("%s#%d", p.Site, p.Goid))
			}
			c.Note("parked %v", sites)
		}
		if t.Exhausted() {
			break
		}
		// choose: release (weight 3), feed (weight 2), clock (weight 1)
		k := t.Choose(6)
		switch {
		case k < 3 && len(parked) > 0:
			p := pick(parked)
			c.Logf("run task@%s (%d parked)", p.Site, len(parked))
			baton.Release(p)
		case k < 5 && len(feedable) > 0:
			i := feedable[t.Choose(len(feedable))]
			fed[i]++
			pl := fmt.Sprintf("p%d-%d", i, fed[i])
			if t.Chance(1, 8) {
				pl += strings.Repeat("x", []int{100, 3000, 9000}[t.Choose(3)]) // large packets cross write-buffer sizes
			}
			pubs[i].Send(pubs[i].Publish(key+"/"+pubChan[i], []byte(pl), false, t.Chance(1, 4)))
			c.Logf("feed pub%d #%d", i, fed[i])
		case len(parked) > 0 && k < 5:
			p := pick(parked)
			c.Logf("run task@%s (%d parked)", p.Site, len(parked))
			baton.Release(p)
		default:
			d := []time.Duration{time.Millisecond, 20 * time.Millisecond, 1100 * time.Millisecond}[t.Choose(3)]
			if advanced+d > 80*time.Second {
				d = time.Millisecond // the broker ends a connection that sent nothing for 120 s: stay well below
			}
			advanced += d
			time.Sleep(d)
			c.Stats.SimTime += d
			c.Logf("advance %v", d)
		}
	}
	// wind-down: everybody runs freely, timers flush
	baton.ReleaseAll()
	world.Settle()
	world.Advance(c, 1100*time.Millisecond)
	world.Advance(c, 1100*time.Millisecond)
	// a connection that the broker ended (idle deadline of 120 s, a request it could not read) shows as
	// lost messages without being C10's business: missing messages are then harness trouble, not "loss"
	ended := b.Svc.VerifConnections() != int64(1+ns+np)
	nontriv := 0
	for si, s := range subs {
		pk, err := s.Recv()
		disc := fmt.Sprintf("rate=%d ws=%v", rate, subWS[si])
		if err != nil {
			c.Check("framing", disc, "subscriber %d's byte stream is not a sequence of well-formed MQTT packets: %v", si, err)
		}
		if s.Leftover() != 0 {
			c.Check("framing", disc+" leftover", "subscriber %d's byte stream ends with %d bytes that do not form a packet", si, s.Leftover())
		}
		next := make([]int, np)
		for _, x := range pk {
			pub, ok := x.(*packets.PublishPacket)
			if !ok {
				continue
			}
			pl := string(pub.Payload)
			if !strings.HasPrefix(pl, "p") {
				continue
			}
			pl = strings.TrimRight(pl, "x")
			parts := strings.SplitN(pl[1:], "-", 2)
			if len(parts) != 2 {
				c.Check("framing", disc+" payload", "unexpected payload %q", pl)
				continue
			}
			pi, _ := strconv.Atoi(parts[0])
			sq, _ := strconv.Atoi(parts[1])
			if pi < 0 || pi >= np {
				c.Check("framing", disc+" payload", "unexpected payload %q", pl)
				continue
			}
			switch {
			case sq == next[pi]+1:
				next[pi] = sq
			case sq <= next[pi]:
				// duplicate or inversion?
				c.Check("dup", disc, "subscriber %d got message %d of publisher %d again or late (after %d)", si, sq, pi, next[pi])
			default:
				c.Check("order", disc, "subscriber %d got message %d of publisher %d right after %d (gap or inversion)", si, sq, pi, next[pi])
				next[pi] = sq
			}
		}
		for pi := range next {
			if !strings.HasPrefix(pubChan[pi], fmt.Sprintf("s%d/", si)) {
				if next[pi] != 0 {
					c.Check("dup", disc+" foreign", "subscriber %d got messages of publisher %d which publishes to %s", si, pi, pubChan[pi])
				}
				continue
			}
			if next[pi] != fed[pi] && ended {
				c.Harnessf("%d of %d connections are left at the end of the run and messages are missing: the broker ended a connection (simulated time advanced in the loop: %v)", b.Svc.VerifConnections(), 1+ns+np, advanced)
			}
			if next[pi] != fed[pi] {
				c.Check("loss", disc, "subscriber %d received %d of the %d messages publisher %d sent to %s", si, next[pi], fed[pi], pi, pubChan[pi])
			}
			if next[pi] >= 3 {
				nontriv++
			}
		}
	}
	if nontriv >= 2 {
		c.NonTrivial()
	}
	c.State(fmt.Sprintf("rate=%d np=%d ns=%d", rate, np, ns))
}
