package checks

import (
	"fmt"
	"sort"
	"strings"
	"time"

	"github.com/eclipse/paho.mqtt.golang/packets"
	"github.com/emitter-io/emitter/internal/event"
	"github.com/emitter-io/emitter/internal/message"
	"github.com/emitter-io/emitter/internal/verifauto"
	"github.com/emitter-io/emitter/internal/verifyield"
	"github.com/emitter-io/emitter/verifsim/kernel"
	"github.com/emitter-io/emitter/verifsim/model"
	"github.com/emitter-io/emitter/verifsim/mqttc"
	"github.com/emitter-io/emitter/verifsim/world"
	"github.com/weaveworks/mesh"
)

// C05 — cluster routing follows the replicated subscription state.

func init() {
	kernel.Register(&kernel.World{
		Property: "C05", Bubble: true, Run: runC05, RunsPerProc: 40, RunTimeout: 300 * time.Second,
		Rule:        "one run = 2-4 real brokers on the simulated mesh (full mesh or line), 1-2 clients per broker; tape-generated subscribe / unsubscribe / abrupt disconnect + reconnect bursts on channels {a/, b/, a/b/, b/a/}; every transport event (which link sender runs, which in-flight message is delivered, GC notifications), every clock advance (us..31 s: peer send queues, emitter's 5 s update, periodic full-state gossip) and, by campaign (A schedules only, B + link down / partition / heal, C + broker crash and restart on a crash image, clean stop and restart, D schedules + two gossip messages delivered to one broker by two goroutines interleaved at the yield points of Swarm.merge, E schedules + a client's subscribe / unsubscribe served by its connection goroutine while a link goroutine merges gossip for the same broker, interleaved at every mutex / sync.Map boundary of swarm.go and internal/event/crdt that tools/autoyield instrumented, by a uniform, a depth-preemptive or a sticky-biased policy chosen by the tape) every fault is a tape decision. At quiescence (faults stopped, links healed by emitter's own Join loop, 150 simulated seconds): no Gossiper callback panicked; every broker's trie holds the remote entry (filter, peer P) iff P has a live local subscriber with that filter; one probe publish per (broker, channel) reaches every matching subscriber on every broker exactly once and nobody else. non-trivial = >= 1 remote route expected at quiescence; distinct = distinct canonical logs",
		Real:        []string{"broker.Service x N", "cluster.Swarm (Notify, merge, onPeerOnline/Offline, update, Join)", "cluster.Peer (counters, send queue)", "event.State / crdt (durable)", "pubsub, message.Trie", "Service.onPeerMessage"},
		Stub:        []string{"weaveworks/mesh (simmesh transcription: per-link senders, broadcast tree, relays, periodic gossip, full state on link-up, GC)", "client sockets (simnet)", "clock (synctest)"},
		Assumptions: []string{"outside campaigns D and E Gossiper callbacks run one at a time (the real mesh runs one receive loop per link)", "topology knowledge in the mesh is immediate (its own topology gossip is not simulated)", "a live mesh link is a TCP stream: FIFO, lossless; loss only when a link or node goes down", "a broker's own clock strictly increases between two client operations and between two critical sections of concurrent goroutines in campaign E (no timestamp ties inside one broker; ties and skew between replicas are explored by C04/C13)", "brokers' clocks are synchronised and every transport event (delivery, connect, link down, partition, kill) happens at least 1 us after its cause"},
	})
}

type c05Client struct {
	cl     *mqttc.Client
	broker int
	name   string
	subs   map[string]bool
}

type c05World struct {
	longAdvances int
	c            *kernel.Ctx
	cl           *world.Cluster
	key          string
	clients      []*c05Client
	nclient      int
	chans        []string
	mode         string
	down         map[int]bool
}

func (w *c05World) attach(b int) *c05Client {
	w.nclient++
	name := fmt.Sprintf("c%d", w.nclient)
	cli := w.cl.Brokers[b].Attach(name)
	world.ConnectClient(w.c, cli, name, "", nil)
	cc := &c05Client{cl: cli, broker: b, name: name, subs: map[string]bool{}}
	w.clients = append(w.clients, cc)
	return cc
}

func (w *c05World) live() []*c05Client {
	var out []*c05Client
	for _, c := range w.clients {
		if !c.cl.Gone && w.cl.Brokers[c.broker] != nil {
			out = append(out, c)
		}
	}
	return out
}

func runC05(c *kernel.Ctx) {
	t := c.Tape
	c.SleepToEpoch()
	campaign := c.Params["campaign"]
	if campaign == "" {
		campaign = []string{"A", "A", "B", "B", "C", "D", "E", "F"}[t.Choose(8)]
	}
	// campaign D: schedules only, plus gossip arriving on two links of one broker
	// at the same time (the mesh runs one receive goroutine per link): the two
	// Gossiper callbacks park at the yield points of Swarm.merge and the tape
	// interleaves them
	// since the repair that serialises Swarm.merge the points inside it lie under a
	// mutex: only its entry (before the lock) can be parked at
	baton := kernel.NewBaton()
	baton.OnlySites = []string{"cluster.Swarm.merge:entry"}
	if c.Params["parkinside"] != "" {
		baton.OnlySites = nil // for demonstrating the race on a tree without the lock
	}
	verifyield.Hook = baton.Hook
	defer func() { baton.ReleaseAll(); verifyield.Hook = nil }()
	if campaign == "E" || campaign == "F" {
		// campaign E: a client's subscribe / unsubscribe served by its connection goroutine
		// while a gossip payload for the same broker is being merged by a link goroutine.
		// Scheduling points: the ones tools/autoyield puts around every mutex operation of
		// swarm.go and internal/event/crdt in the scratch copy; a task may park while it
		// holds a mutex, whoever wants that mutex stays parked until it is free.
		baton.Auto = []string{"internal/service/cluster/swarm.go", "internal/event/crdt/"}
		baton.ParkHolding = true
		// the simulated mesh combines queued payloads (payload.Merge) and encodes them under its own mutex
		baton.NoParkUnder = []string{"mesh.(*Network).safeMerge", "mesh.(*Network).doSend", "mesh.(*Network).broadcast", "mesh.(*Network).send"}
		verifauto.Hook, verifauto.AcquireHook, verifauto.LockHook = baton.Hook, baton.AcquireHook, baton.LockHook
		defer func() { verifauto.Hook, verifauto.AcquireHook, verifauto.LockHook = nil, nil, nil }()
	}
	n := t.Range(2, 4)
	line := n >= 3 && t.Chance(1, 3)
	lic := world.Licenses[2]
	w := &c05World{c: c, chans: []string{"a/", "b/", "a/b/", "b/a/"}, down: map[int]bool{}}
	w.mode = []string{"", "", "mqtt"}[t.Choose(3)]
	if w.mode == "mqtt" {
		w.chans = append(w.chans, "a/+/", "b/#/")
	}
	w.cl = world.NewCluster(c, n, lic, func(i int, o *world.BrokerOpts) {
		if campaign != "C" && t.Chance(1, 2) {
			o.StateDir = ":memory:"
		}
		o.Matcher = w.mode
	})
	defer w.cl.Close()
	cl := w.cl
	c.Logf("campaign=%s brokers=%d line=%v matcher=%q", campaign, n, line, w.mode)
	if line {
		for i := 0; i < n; i++ {
			for j := i + 2; j < n; j++ {
				cl.Net.Block(cl.Name(i), cl.Name(j), true)
			}
		}
		for i := 0; i+1 < n; i++ {
			cl.Net.Connect(cl.Name(i), cl.Name(i+1))
		}
	} else {
		cl.LinkAll()
	}
	cl.Drain(2000)
	cl.AdvanceNet(6 * time.Second)
	cl.Drain(2000)

	for b := 0; b < n; b++ {
		for k := 0; k < t.Range(1, 2); k++ {
			cc := w.attach(b)
			if w.key == "" {
				w.key = world.Keygen(c, cc.cl, lic.Master, "#/", "rw", 0)
			}
		}
	}
	cl.Drain(2000)

	steps := t.Range(20, 150)
	for s := 0; s < steps && !t.Exhausted(); s++ {
		c.Step()
		k := t.Choose(100)
		switch {
		case k < 35: // client burst
			lv := w.live()
			if len(lv) == 0 {
				break
			}
			cc := lv[t.Choose(len(lv))]
			burst := 1
			if t.Chance(1, 3) {
				burst = t.Range(2, 4)
			}
			for i := 0; i < burst; i++ {
				world.Advance(c, time.Duration(t.Range(1, 2000))*time.Microsecond)
				f := w.chans[t.Choose(len(w.chans))]
				if t.Chance(3, 5) {
					cc.cl.Send(cc.cl.Subscribe(w.key + "/" + f))
					cc.subs[f] = true
					c.Logf("%s@b%d subscribe %s", cc.name, cc.broker, f)
				} else {
					cc.cl.Send(cc.cl.Unsubscribe(w.key + "/" + f))
					delete(cc.subs, f)
					c.Logf("%s@b%d unsubscribe %s", cc.name, cc.broker, f)
				}
				world.Settle()
				cc.cl.Recv()
			}
		case k < 42: // abrupt disconnect, maybe reconnect as a new connection
			lv := w.live()
			if len(lv) == 0 {
				break
			}
			cc := lv[t.Choose(len(lv))]
			world.Advance(c, time.Duration(t.Range(1, 2000))*time.Microsecond)
			cc.cl.Conn.Close()
			cc.cl.Gone = true
			world.Settle()
			c.Logf("%s@b%d disconnects", cc.name, cc.broker)
			c.Fault("client-disconnect")
			if t.Chance(1, 2) {
				w.attach(cc.broker)
			}
		case k < 60 && campaign == "D":
			w.concurrentDeliver(baton)
		case k < 60 && campaign == "E":
			w.concurrentLocal(baton)
		case k < 55 && campaign == "F":
			w.concurrentEvents(baton)
		case k < 75:
			cl.NetStep()
		case k < 90:
			d := []time.Duration{5 * time.Millisecond, 5 * time.Millisecond, time.Second, 5 * time.Second, 31 * time.Second}[t.Choose(5)]
			if (campaign == "B" || campaign == "C") && w.longAdvances < 1 && t.Chance(1, 30) {
				// an outage (or a quiet spell) that lasts: 16-45 minutes pass, far more than any gossip interval,
				// far less than the six hours after which removals are forgotten by design
				d = time.Duration(t.Range(16, 45)) * time.Minute
				w.longAdvances++
				for el := time.Duration(0); el < d; el += time.Minute {
					w.keepalive()
					cl.AdvanceNet(time.Minute)
					cl.Drain(2000)
				}
				for _, cc := range w.live() {
					cc.cl.Recv()
				}
				c.Fault("long-outage")
				c.Logf("advance %v", d)
				break
			}
			if d >= time.Second {
				w.keepalive()
			}
			cl.AdvanceNet(d)
			c.Logf("advance %v", d)
		default:
			w.fault(campaign, line)
		}
		if len(cl.Panics) > 0 {
			c.Check("panic", strings.SplitN(cl.Panics[0], ":", 2)[0], "a gossip callback / send-queue merge panicked (the real mesh does not recover: the broker process exits): %s", cl.Panics[0])
			cl.Panics = nil
		}
	}

	// ---- quiescence ---------------------------------------------------------
	c.Logf("quiesce")
	for i := 0; i < n; i++ {
		for j := i + 1; j < n; j++ {
			if !line || j == i+1 {
				cl.Net.Block(cl.Name(i), cl.Name(j), false)
			}
		}
	}
	for i := 0; i < n; i++ {
		if cl.Brokers[i] == nil {
			cl.Start(i)
			c.Logf("b%d restarted for quiescence", i)
		}
	}
	if line {
		for i := 0; i+1 < n; i++ {
			cl.Net.Connect(cl.Name(i), cl.Name(i+1))
		}
	}
	cl.Quiesce(150*time.Second, func(el time.Duration) {
		if el%(50*time.Second) == 0 {
			w.keepalive()
		}
	})
	if len(cl.Panics) > 0 {
		c.Check("panic", strings.SplitN(cl.Panics[0], ":", 2)[0], "a gossip callback panicked: %s", cl.Panics[0])
	}
	for _, cc := range w.live() {
		cc.cl.Recv()
	}
	w.checkRoutes(line)
	w.checkDelivery()
}

// concurrentDeliver lets two in-flight gossip messages for the same broker be
// delivered by two goroutines at once, interleaved at the yield points of merge.
func (w *c05World) concurrentDeliver(baton *kernel.Baton) {
	c, cl, t := w.c, w.cl, w.c.Tape
	cl.Net.Canonicalise()
	byDst := map[mesh.PeerName][]mesh.Event{}
	var dsts []mesh.PeerName
	for _, e := range cl.Net.Enabled() {
		if e.Kind == "deliver" {
			if len(byDst[e.B]) == 0 {
				dsts = append(dsts, e.B)
			}
			byDst[e.B] = append(byDst[e.B], e)
		}
	}
	var cands []mesh.PeerName
	for _, d := range dsts {
		if len(byDst[d]) >= 2 {
			cands = append(cands, d)
		}
	}
	if len(cands) == 0 {
		cl.NetStep()
		return
	}
	d := cands[t.Choose(len(cands))]
	evs := byDst[d]
	i := t.Choose(len(evs))
	j := t.Choose(len(evs) - 1)
	if j >= i {
		j++
	}
	c.Logf("net concurrent deliver %s and %s", evs[i], evs[j])
	cl.Latency()
	c.Fault("concurrent-merge")
	baton.SetActive(true)
	done := make(chan struct{}, 2)
	for _, e := range []mesh.Event{evs[i], evs[j]} {
		e := e
		go func() {
			cl.Net.Do(e)
			done <- struct{}{}
		}()
		world.Settle() // the first task parks (or finishes) before the second is created: stable creation order
	}
	for n := 0; n < 200; n++ {
		world.Settle()
		pk := baton.Parked()
		if len(pk) == 0 {
			break
		}
		p := pk[t.Choose(len(pk))]
		c.Logf("  run merge task@%s (%d parked)", p.Site, len(pk))
		baton.Release(p)
	}
	baton.ReleaseAll()
	world.Settle()
}

// concurrentLocal lets one in-flight gossip message be merged by a link goroutine
// while a client of the same broker has a subscribe or unsubscribe served by its
// connection goroutine; the tape interleaves the two at every mutex boundary.
func (w *c05World) concurrentLocal(baton *kernel.Baton) {
	c, cl, t := w.c, w.cl, w.c.Tape
	cl.Net.Canonicalise()
	idx := map[mesh.PeerName]int{}
	for i := range cl.Brokers {
		idx[cl.Name(i)] = i
	}
	type cand struct {
		e  mesh.Event
		cc *c05Client
	}
	var cands []cand
	for _, e := range cl.Net.Enabled() {
		if e.Kind != "deliver" {
			continue
		}
		for _, cc := range w.live() {
			if cc.broker == idx[e.B] {
				cands = append(cands, cand{e, cc})
			}
		}
	}
	if len(cands) == 0 {
		cl.NetStep()
		return
	}
	// Prefer (3 times in 4) a delivery whose payload speaks about a subscription the chosen client
	// holds on that very broker: merging it makes the broker look at its own announcement while the
	// client is changing it.
	type hot struct {
		cand
		f string
	}
	var hots []hot
	for _, k := range cands {
		st, err := event.DecodeState(cl.Net.HeadPayload(k.e.A, k.e.B))
		if err != nil {
			continue
		}
		about := map[string]bool{}
		st.Subscriptions(func(ev *event.Subscription, _ event.Value) {
			if ev.Peer == uint64(k.e.B) {
				about[string(ev.Channel)] = true
			}
		})
		for _, f := range w.chans {
			if k.cc.subs[f] && about[f] {
				hots = append(hots, hot{k, f})
			}
		}
	}
	var k cand
	f, unsub := "", false
	if len(hots) > 0 && t.Chance(3, 4) {
		h := hots[t.Choose(len(hots))]
		k, f, unsub = h.cand, h.f, true
		c.Probe("campaign-E-payload-mentions-the-subscription-being-removed")
	} else {
		k = cands[t.Choose(len(cands))]
	}
	cc := k.cc
	var held []string
	for _, f := range w.chans {
		if cc.subs[f] {
			held = append(held, f)
		}
	}
	world.Advance(c, time.Duration(t.Range(1, 2000))*time.Microsecond)
	cl.Latency()
	if f == "" {
		unsub = len(held) > 0 && t.Chance(2, 3)
		if unsub {
			f = held[t.Choose(len(held))]
		} else {
			f = w.chans[t.Choose(len(w.chans))]
		}
	}
	c.Logf("net deliver %s while %s@b%d %s %s", k.e, cc.name, cc.broker, map[bool]string{true: "unsubscribes", false: "subscribes"}[unsub], f)
	c.Fault("merge-concurrent-with-local-operation")
	baton.SetActive(true)
	go cl.Net.Do(k.e)
	world.Settle() // the merge parks at its first boundary before the connection goroutine wakes up
	if unsub {
		cc.cl.Send(cc.cl.Unsubscribe(w.key + "/" + f))
		delete(cc.subs, f)
	} else {
		cc.cl.Send(cc.cl.Subscribe(w.key + "/" + f))
		cc.subs[f] = true
	}
	baton.PreemptSite = c.Params["preempt"]
	_, stuck := baton.Drive(t, world.Settle, func(p *kernel.Parked, runnable, waiting int) {
		c.Logf("  task crosses %s (%d of %d can run)", p.Site, runnable, waiting)
		time.Sleep(time.Microsecond) // the broker's clock moves on between any two critical sections (no timestamp ties)
		c.Probe("campaign-E-boundary-crossings")
		if strings.Contains(p.Site, "Swarm.reconcile") {
			c.Probe("campaign-E-crossing-inside-reconcile")
		}
		if waiting > runnable {
			c.Probe("task-kept-parked-because-mutex-is-held")
		}
	}, 4000)
	if stuck {
		c.Harnessf("campaign E: %d tasks parked, none can run (or step bound)", baton.Waiting())
	}
	baton.ReleaseAll()
	world.Settle()
	cc.cl.Recv()
}

// concurrentEvents (campaign F): the mesh library calls a broker from several goroutines - one per
// link for what arrives on it, its own for "this peer has become unreachable" - and whatever is
// enabled in the simulated transport may therefore overlap: here up to three transport events
// (deliveries on different links, garbage-collection notifications, link-ups with their complete
// state) each run in a goroutine of their own, started at tape-chosen moments while the others are
// parked somewhere inside the broker, interleaved at the boundaries of swarm.go and
// internal/event/crdt. Never two deliveries of one directed link at once (one goroutine per link).
func (w *c05World) concurrentEvents(baton *kernel.Baton) {
	c, cl, t := w.c, w.cl, w.c.Tape
	cl.Net.Canonicalise()
	started := map[string]bool{}
	busyLink := map[[2]mesh.PeerName]bool{}
	nstarted := 0
	pickNew := func() (mesh.Event, bool) {
		var cands []mesh.Event
		for _, e := range cl.Net.Enabled() {
			if e.Kind == "send" || started[e.String()] {
				continue // picking a payload for a link is the library's own sender goroutine: not inside a broker
			}
			if e.Kind == "deliver" && busyLink[[2]mesh.PeerName{e.A, e.B}] {
				continue
			}
			cands = append(cands, e)
		}
		if len(cands) == 0 {
			return mesh.Event{}, false
		}
		// notifications that a peer has gone are what the campaign is after: prefer them
		var gcs []mesh.Event
		for _, e := range cands {
			if e.Kind == "gc" {
				gcs = append(gcs, e)
			}
		}
		if len(gcs) > 0 && t.Chance(2, 3) {
			return gcs[t.Choose(len(gcs))], true
		}
		return cands[t.Choose(len(cands))], true
	}
	if _, ok := pickNew(); !ok {
		cl.NetStep()
		return
	}
	cl.Latency()
	baton.SetActive(true)
	done := make(chan struct{}, 8)
	var cur uint64
	for n := 0; n < 3000; n++ {
		world.Settle()
		pk := baton.Parked()
		var e mesh.Event
		canStart := false
		if nstarted < 3 {
			e, canStart = pickNew()
		}
		if len(pk) == 0 && !(canStart && nstarted == 0) {
			if baton.Waiting() > 0 {
				c.Harnessf("campaign F: %d tasks parked, none can run", baton.Waiting())
			}
			break
		}
		if canStart && (len(pk) == 0 || t.Chance(1, 6)) {
			started[e.String()] = true
			if e.Kind == "deliver" {
				busyLink[[2]mesh.PeerName{e.A, e.B}] = true
			}
			nstarted++
			c.Logf("net %s runs in a goroutine of its own (%d parked)", e, len(pk))
			if e.Kind == "gc" {
				c.Probe("campaign-F-gc-notification-concurrent")
			}
			c.Fault("concurrent-transport-events")
			ev := e
			go func() {
				cl.Net.Do(ev)
				done <- struct{}{}
			}()
			continue
		}
		// sticky: the task that ran last mostly runs on (deep into its critical sections)
		var p *kernel.Parked
		for _, q := range pk {
			if q.Goid == cur && !t.Chance(1, 5) {
				p = q
			}
		}
		if p == nil {
			p = pk[t.Choose(len(pk))]
		}
		cur = p.Goid
		c.Logf("  task crosses %s (%d of %d can run)", p.Site, len(pk), baton.Waiting())
		time.Sleep(time.Microsecond)
		if baton.Waiting() > len(pk) {
			c.Probe("task-kept-parked-because-mutex-is-held")
		}
		baton.Release(p)
	}
	baton.ReleaseAll()
	world.Settle()
	for _, cc := range w.live() {
		cc.cl.Recv()
	}
}

// keepalive: idle clients ping so that the broker's 120 s read deadline never ends them.
func (w *c05World) keepalive() {
	for _, cc := range w.live() {
		cc.cl.Send(mqttc.Ping())
	}
	world.Settle()
	for _, cc := range w.live() {
		cc.cl.Recv()
	}
}

func (w *c05World) fault(campaign string, line bool) {
	c, cl, t := w.c, w.cl, w.c.Tape
	n := len(cl.Brokers)
	if campaign == "A" || campaign == "D" {
		cl.NetStep()
		return
	}
	a, b := t.Choose(n), t.Choose(n)
	switch k := t.Choose(10); {
	case k < 4 && a != b:
		cl.Latency()
		if cl.Net.Disconnect(cl.Name(a), cl.Name(b)) {
			c.Fault("link-down")
			c.Logf("fault link down b%d-b%d", a, b)
		}
	case k < 6 && a != b:
		cl.Latency()
		cl.Net.Block(cl.Name(a), cl.Name(b), true)
		c.Fault("partition")
		c.Logf("fault partition b%d|b%d", a, b)
	case k < 8 && a != b:
		if !line || a-b == 1 || b-a == 1 {
			cl.Net.Block(cl.Name(a), cl.Name(b), false)
			c.Logf("heal b%d|b%d", a, b)
		}
	case campaign == "C" && cl.Brokers[a] != nil && k == 8:
		if t.Chance(1, 2) {
			cl.Crash(a)
			c.Logf("fault crash b%d", a)
		} else {
			cl.Stop(a)
			c.Logf("fault clean stop b%d", a)
		}
	case campaign == "C" && cl.Brokers[a] == nil:
		cl.Start(a)
		if !line {
			cl.LinkAll()
		}
		c.Logf("restart b%d", a)
		c.Fault("broker-restart")
		if t.Chance(1, 2) {
			w.attach(a)
		}
	}
}

// expected remote routes: broker B must hold (filter, P) iff P has a live local subscriber.
func (w *c05World) checkRoutes(line bool) {
	c, cl := w.c, w.cl
	contract := cl.Lic.Contract
	want := map[int]map[string]bool{} // peer index -> set of ssid strings
	for _, cc := range w.live() {
		for f := range cc.subs {
			if want[cc.broker] == nil {
				want[cc.broker] = map[string]bool{}
			}
			want[cc.broker][fmt.Sprint(message.Ssid(model.Ssid(contract, model.Levels(f))))] = true
		}
	}
	nameIdx := map[string]int{}
	for i := range cl.Brokers {
		nameIdx[cl.Name(i).String()] = i
	}
	nroutes := 0
	for b, br := range cl.Brokers {
		_, entries := br.Svc.VerifTrie().VerifDump()
		got := map[int]map[string]bool{}
		for _, e := range entries {
			if e.Type != message.SubscriberRemote || len(e.Ssid) < 2 || e.Ssid[0] != contract {
				continue
			}
			p, ok := nameIdx[e.ID]
			if !ok {
				continue
			}
			if got[p] == nil {
				got[p] = map[string]bool{}
			}
			got[p][fmt.Sprint(e.Ssid)] = true
		}
		for p := range cl.Brokers {
			if p == b {
				continue
			}
			for s := range want[p] {
				nroutes++
				if !got[p][s] {
					cnt, act := br.Svc.VerifSwarm().VerifPeerCounters(uint64(cl.Name(p)))
					c.Check("route-missing", w.shape(), "at quiescence b%d has no route to b%d for %s although b%d has a live local subscriber (b%d routes to b%d: %v; peer counters %v active=%v; replicated entries of b%d: %s)", b, p, w.chanOf(s), p, b, p, w.names(got[p]), cnt, act, p, w.dumpPeer(p))
				}
			}
			for s := range got[p] {
				if !want[p][s] {
					c.Check("route-stale", w.shape(), "at quiescence b%d still routes %s to b%d which has no live local subscriber for it; replicated entries of b%d: %s", b, w.chanOf(s), p, p, w.dumpPeer(p))
				}
			}
		}
	}
	if nroutes > 0 {
		c.NonTrivial()
	}
	c.State(fmt.Sprintf("routes=%d", nroutes))
}

// dumpPeer lists, per broker, the replicated subscription entries of peer p.
func (w *c05World) dumpPeer(p int) string {
	out := ""
	for b, br := range w.cl.Brokers {
		if br == nil {
			continue
		}
		out += fmt.Sprintf(" [b%d:", b)
		br.Svc.VerifSwarm().VerifState().Subscriptions(func(ev *event.Subscription, v event.Value) {
			if ev.Peer == uint64(w.cl.Name(p)) {
				out += fmt.Sprintf(" %s/conn%d(+%d,-%d)", ev.Channel, uint64(ev.Conn), v.AddTime()/1000%100_000_000_000, v.DelTime()/1000%100_000_000_000)
			}
		})
		out += "]"
	}
	return out
}

func (w *c05World) shape() string { return fmt.Sprintf("brokers=%d", len(w.cl.Brokers)) }

func (w *c05World) chanOf(ssid string) string {
	for _, f := range w.chans {
		if fmt.Sprint(message.Ssid(model.Ssid(w.cl.Lic.Contract, model.Levels(f)))) == ssid {
			return f
		}
	}
	return ssid
}

func (w *c05World) names(m map[string]bool) []string {
	var out []string
	for s := range m {
		out = append(out, w.chanOf(s))
	}
	sort.Strings(out)
	return out
}

// one probe publish per (broker, channel): every matching subscriber anywhere gets it once.
func (w *c05World) checkDelivery() {
	c, cl := w.c, w.cl
	probes := make([]*mqttc.Client, len(cl.Brokers))
	for b, br := range cl.Brokers {
		p := br.Attach(fmt.Sprintf("probe%d", b))
		world.ConnectClient(c, p, fmt.Sprintf("probe%d", b), "", nil)
		probes[b] = p
	}
	cl.Drain(2000)
	seq := 0
	for b := range cl.Brokers {
		for _, ch := range []string{"a/", "b/", "a/b/", "b/a/", "a/b/x/"} {
			// a short train of publishes written one after the other with no time passing in between: on their
			// way to another broker they sit in the same peer queue until its next flush
			seq++
			train := 1 + seq%3
			var payloads []string
			for k := 0; k < train; k++ {
				pl := fmt.Sprintf("probe-%d-%d", seq, k)
				payloads = append(payloads, pl)
				probes[b].Send(probes[b].Publish(w.key+"/"+ch, []byte(pl), false, false))
				world.Settle()
			}
			payload := payloads[0]
			for i := 0; i < 4; i++ {
				cl.AdvanceNet(5 * time.Millisecond)
				cl.Drain(2000)
			}
			for _, cc := range w.live() {
				pk, err := cc.cl.Recv()
				if err != nil {
					c.Failf("deliver-extra", "undecodable", "%v", err)
				}
				n := 0
				var order []string
				for _, p := range pk {
					if pub, ok := p.(*packets.PublishPacket); ok {
						if string(pub.Payload) == payload {
							n++
						}
						order = append(order, pub.TopicName+"="+string(pub.Payload))
					}
				}
				exp := 0
				for f := range cc.subs {
					if model.Match(w.mode, model.Levels(f), model.Levels(ch)) {
						exp = 1
					}
				}
				if exp == 1 && train > 1 {
					var want []string
					for _, pl := range payloads {
						want = append(want, ch+"="+pl)
					}
					if strings.Join(order, " ") != strings.Join(want, " ") && n == exp {
						c.Check("deliver-missing", "train", "%d publishes written back to back on b%d to %s reached %s on b%d as %v, expected %v", train, b, ch, cc.name, cc.broker, order, want)
					}
				}
				where := "remote"
				if cc.broker == b {
					where = "local"
				}
				switch {
				case n < exp:
					c.Check("deliver-missing", where, "publish on b%d to %s did not reach %s on b%d (subs %v)", b, ch, cc.name, cc.broker, sortedKeys(cc.subs))
				case n > 1:
					c.Check("deliver-dup", where, "publish on b%d to %s reached %s on b%d %d times", b, ch, cc.name, cc.broker, n)
				case n > exp:
					c.Check("deliver-extra", where, "publish on b%d to %s reached %s on b%d which has no matching subscription (subs %v)", b, ch, cc.name, cc.broker, sortedKeys(cc.subs))
				}
			}
		}
	}
}
