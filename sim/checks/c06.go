package checks

import (
	"bytes"
	"fmt"
	"path/filepath"
	"sort"
	"time"

	"github.com/emitter-io/emitter/internal/message"
	"github.com/emitter-io/emitter/internal/provider/storage"
	"github.com/emitter-io/emitter/internal/security/hash"
	"github.com/emitter-io/emitter/verifsim/kernel"
	"github.com/emitter-io/emitter/verifsim/model"
)

// C06 — history queries return exactly the stored, live, matching messages.

func init() {
	kernel.Register(&kernel.World{
		Property: "C06", Bubble: true, Run: runC06, RunsPerProc: 60, RunTimeout: 300 * time.Second,
		Rule: "one run = the real disk (badger on /dev/shm) or in-memory provider inside a bubble; tape-generated stores (two contracts chosen so that contract^hash(first level) collides, channels of depth 1-3 over {a,b,c}, ttl 5 s .. 10 min and 'retained' with a configured retention of 30 s .. 30 days, payloads 1 B .. 30 KB, many per simulated second), clock jumps that expire some messages, and queries (filters shorter/longer than the stored channels with '+' levels, windows, limits 0..10000, continuation chains from the oldest returned id); every result is compared with a list model: newest-first selection of live matching messages of that contract inside the window, cut by limit and the 64 KiB cap, returned in non-decreasing time; continuation pages never share a message and together return everything; non-trivial = >= 1 query with a non-empty expected result; distinct = distinct canonical logs",
		Real:  []string{"storage.SSD / storage.InMemory (Store, Query, lookup)", "badger v3 (TTL expiry on the fake clock)", "message.ID (NewID, NewPrefix, HasPrefix, Match)", "message.Frame (Limit, Sort)", "message codec"},
		Stub:  []string{"clock (synctest)"},
		Assumptions: []string{"the order of messages created within one second is their creation order (ids carry an inverted sequence number)", "queries never land in the very second a message expires"},
	})
}

type c06Msg struct {
	id       message.ID
	contract uint32
	levels   []string
	payload  []byte
	ttl      uint32
	stored   time.Time
	expires  time.Time
	seq      int
}

type c06World struct {
	c      *kernel.Ctx
	st     storage.Storage
	msgs   []*c06Msg
	seq    int
	retain uint32
}

func (w *c06World) ssid(contract uint32, levels []string) message.Ssid {
	return message.Ssid(model.Ssid(contract, levels))
}

// expected computes the reference answer.
func (w *c06World) expected(contract uint32, filter []string, from, until int64, limit int, after *c06Msg) []*c06Msg {
	now := time.Now()
	var cand []*c06Msg
	for _, m := range w.msgs {
		if m.contract != contract || !now.Before(m.expires) {
			continue
		}
		if !model.MatchEmitter(filter, m.levels) {
			continue
		}
		t := m.id.Time()
		if t < from || (until != 0 && t > until) {
			continue
		}
		if after != nil && !(m.id.Time() < after.id.Time() || (m.id.Time() == after.id.Time() && m.seq < after.seq)) {
			continue
		}
		cand = append(cand, m)
	}
	// newest first
	sort.Slice(cand, func(i, j int) bool {
		if cand[i].id.Time() != cand[j].id.Time() {
			return cand[i].id.Time() > cand[j].id.Time()
		}
		return cand[i].seq > cand[j].seq
	})
	var out []*c06Msg
	size := 0
	for _, m := range cand {
		if len(out) >= limit {
			break
		}
		size += len(m.payload) + len(m.id) + len(m.levels)*2
		if size > 65536 {
			break
		}
		out = append(out, m)
	}
	return out
}

func runC06(c *kernel.Ctx) {
	t := c.Tape
	c.SleepToEpoch()
	w := &c06World{c: c}
	cfg := map[string]interface{}{}
	w.retain = 2592000
	if t.Chance(1, 2) {
		w.retain = uint32([]int{30, 300, 86400}[t.Choose(3)])
		cfg["retain"] = float64(w.retain)
	}
	kind := "inmemory"
	if t.Chance(1, 2) {
		kind = "ssd"
		s := storage.NewSSD(nil)
		cfg["dir"] = filepath.Join(c.Scratch, "store")
		if err := s.Configure(cfg); err != nil {
			c.Harnessf("ssd configure: %v", err)
		}
		w.st = s
	} else {
		s := storage.NewInMemory(nil)
		if err := s.Configure(cfg); err != nil {
			c.Harnessf("inmemory configure: %v", err)
		}
		w.st = s
	}
	defer w.st.Close()
	lits := []string{"a", "b", "c"}
	c1 := uint32(1000 + t.Choose(5))
	c2 := c1 ^ hash.OfString("a") ^ hash.OfString("b") // (c1,a) and (c2,b) share the 32-bit key prefix
	contracts := []uint32{c1, c2}
	c.Logf("provider=%s retain=%d", kind, w.retain)
	var lastPage []*c06Msg
	var lastQ struct {
		contract    uint32
		filter      []string
		from, until int64
		limit       int
		ok          bool
	}
	steps := t.Range(15, 120)
	for s := 0; s < steps && !t.Exhausted(); s++ {
		c.Step()
		switch k := t.Choose(20); {
		case k < 1 && len(w.msgs) < 400: // a burst of small messages on one channel: more than any internal buffer size
			contract := contracts[t.Choose(2)]
			lv := []string{lits[t.Choose(3)], lits[t.Choose(3)]}
			n := t.Range(130, 200)
			for i := 0; i < n; i++ {
				w.seq++
				payload := []byte(fmt.Sprintf("b#%d", w.seq))
				m := message.New(w.ssid(contract, lv), []byte(model.Join(lv)), payload)
				m.TTL = 600
				id := append(message.ID(nil), m.ID...)
				if err := w.st.Store(m); err != nil {
					c.Failf("missing", "store-error", "Store failed: %v", err)
				}
				w.msgs = append(w.msgs, &c06Msg{id: id, contract: contract, levels: lv, payload: payload, ttl: 600, stored: time.Now(),
					expires: time.Unix(id.Time(), 0).Add(600 * time.Second), seq: w.seq})
			}
			c.Logf("burst of %d on c%d %s", n, contract%7, model.Join(lv))
			c.Probe("burst-over-128-messages")
			lastQ.ok = false
		case k < 9: // store
			contract := contracts[t.Choose(2)]
			d := t.Range(1, 3)
			var lv []string
			for i := 0; i < d; i++ {
				lv = append(lv, lits[t.Choose(3)])
			}
			ttl := []uint32{5, 60, 600, message.RetainedTTL}[t.Choose(4)]
			size := []int{1, 100, 5000, 30000}[t.Choose(4)]
			w.seq++
			payload := append(bytes.Repeat([]byte{'x'}, size), []byte(fmt.Sprintf("#%d", w.seq))...)
			m := message.New(w.ssid(contract, lv), []byte(model.Join(lv)), payload)
			m.TTL = ttl
			id := append(message.ID(nil), m.ID...)
			if t.Chance(1, 5) {
				// the store call happens some time after the message was stamped (a busy broker, a message
				// handed over late): its expiry still counts from its own timestamp
				late := time.Duration(t.Range(2, 40)) * time.Second
				time.Sleep(late)
				c.Stats.SimTime += late
				c.Fault("store-later-than-timestamp")
				c.Logf("store delayed by %v", late)
			}
			if err := w.st.Store(m); err != nil {
				c.Failf("missing", "store-error", "Store failed: %v", err)
			}
			eff := ttl
			if ttl == message.RetainedTTL {
				eff = w.retain
			}
			w.msgs = append(w.msgs, &c06Msg{id: id, contract: contract, levels: lv, payload: payload, ttl: eff, stored: time.Now(),
				expires: time.Unix(id.Time(), 0).Add(time.Duration(eff) * time.Second), seq: w.seq})
			c.Logf("store #%d c%d %s ttl=%d size=%d", w.seq, contract%7, model.Join(lv), eff, size)
			lastQ.ok = false
		case k < 12: // clock
			d := []time.Duration{time.Second, time.Second, 3 * time.Second, 3 * time.Second, 61 * time.Second, 61 * time.Second, 61 * time.Second, 11 * time.Minute}[t.Choose(8)] // badger's compactors tick every 50 ms of simulated time: long jumps are expensive
			time.Sleep(d)
			// never sit in the very second something expires
			for again := true; again; {
				again = false
				for _, m := range w.msgs {
					if dd := m.expires.Sub(time.Now()); dd > -1500*time.Millisecond && dd < 1500*time.Millisecond {
						time.Sleep(2 * time.Second)
						again = true
					}
				}
			}
			c.Stats.SimTime += d
			c.Logf("advance %v", d)
			// half of the time the paging goes on after the advance: the message whose id is the continuation
			// point may have expired meanwhile (a client that pages slowly)
			if t.Chance(1, 2) {
				lastQ.ok = false
			} else if lastQ.ok {
				c.Probe("continuation-after-clock-advance")
			}
		case k < 18: // fresh query
			contract := contracts[t.Choose(2)]
			d := t.Range(1, 4)
			var f []string
			for i := 0; i < d; i++ {
				if i > 0 && t.Chance(1, 4) {
					f = append(f, "+")
				} else {
					f = append(f, lits[t.Choose(3)])
				}
			}
			var from, until int64
			now := time.Now().Unix()
			if t.Chance(1, 3) {
				from = now - int64([]int{0, 1, 5, 100, 4000}[t.Choose(5)])
			}
			if t.Chance(1, 3) {
				until = now - int64([]int{0, 1, 5, 100, 4000}[t.Choose(5)])
			}
			limit := []int{0, 1, 2, 3, 5, 100, 10000}[t.Choose(7)]
			got := w.query(contract, f, from, until, limit, nil)
			lastPage = got
			lastQ.contract, lastQ.filter, lastQ.from, lastQ.until, lastQ.limit, lastQ.ok = contract, f, from, until, limit, len(got) > 0
		default: // continuation page from the oldest message of the previous page
			if !lastQ.ok || len(lastPage) == 0 {
				break
			}
			oldest := lastPage[0]
			for _, m := range lastPage {
				if m.id.Time() < oldest.id.Time() || (m.id.Time() == oldest.id.Time() && m.seq < oldest.seq) {
					oldest = m
				}
			}
			got := w.query(lastQ.contract, lastQ.filter, lastQ.from, lastQ.until, lastQ.limit, oldest)
			c.Probe("continuation-page")
			lastPage = got
			lastQ.ok = len(got) > 0
		}
	}
}

// query runs one query against the provider and the model and compares.
func (w *c06World) query(contract uint32, filter []string, from, until int64, limit int, after *c06Msg) []*c06Msg {
	c := w.c
	var t0, t1 time.Time
	t0 = time.Unix(from, 0)
	if until != 0 {
		t1 = time.Unix(until, 0)
	} else {
		t1 = time.Unix(0, 0)
	}
	var start message.ID
	if after != nil {
		start = after.id
	}
	frame, err := w.st.Query(w.ssid(contract, filter), t0, t1, start, limit)
	if err != nil {
		c.Failf("missing", "query-error", "Query failed: %v", err)
	}
	exp := w.expected(contract, filter, from, until, limit, after)
	byID := map[string]*c06Msg{}
	for _, m := range w.msgs {
		byID[string(m.id)] = m
	}
	c.Logf("query c%d %s from=%d until=%d limit=%d cont=%v -> %d messages (expected %d)", contract%7, model.Join(filter), from, until, limit, after != nil, len(frame), len(exp))
	gotSet := map[string]bool{}
	var got []*c06Msg
	prev := int64(0)
	now := time.Now()
	for _, fm := range frame {
		m := byID[string(fm.ID)]
		if m == nil {
			c.Failf("foreign", "unknown-id", "query returned a message that was never stored")
		}
		if gotSet[string(fm.ID)] {
			c.Failf("page-dup", "same-page", "message #%d returned twice in one reply", m.seq)
		}
		gotSet[string(fm.ID)] = true
		got = append(got, m)
		disc := fmt.Sprintf("cont=%v", after != nil)
		switch {
		case m.contract != contract:
			c.Check("foreign", disc, "query for contract c%d returned message #%d of contract c%d (same 32-bit key prefix)", contract%7, m.seq, m.contract%7)
		case !now.Before(m.expires):
			c.Check("expired", disc, "message #%d expired %v ago but was returned", m.seq, now.Sub(m.expires))
		case !model.MatchEmitter(filter, m.levels):
			c.Check("filter", disc, "message #%d on %s does not match filter %s", m.seq, model.Join(m.levels), model.Join(filter))
		case m.id.Time() < from || (until != 0 && m.id.Time() > until):
			c.Check("window", disc, "message #%d (t=%d) lies outside the window [%d,%d]", m.seq, m.id.Time(), from, until)
		case after != nil && !(m.id.Time() < after.id.Time() || (m.id.Time() == after.id.Time() && m.seq < after.seq)):
			c.Check("page-dup", disc, "continuation after #%d returned #%d which is not older (it was, or could have been, on the previous page)", after.seq, m.seq)
		}
		if !bytes.Equal(fm.Payload, m.payload) || string(fm.Channel) != model.Join(m.levels) {
			c.Failf("missing", "content", "message #%d came back with another channel or payload", m.seq)
		}
		if fm.ID.Time() < prev {
			c.Check("order", disc, "reply is not ordered by non-decreasing time")
		}
		prev = fm.ID.Time()
	}
	if len(frame) > limit {
		c.Check("cap", "limit", "reply has %d messages, limit was %d", len(frame), limit)
	}
	expSet := map[string]bool{}
	for _, m := range exp {
		expSet[string(m.id)] = true
	}
	for _, m := range exp {
		if !gotSet[string(m.id)] {
			rule := "missing"
			if len(frame) >= len(exp) {
				rule = "not-latest"
			}
			if after != nil {
				rule = "page-gap"
			}
			c.Check(rule, fmt.Sprintf("cont=%v limit=%d", after != nil, min(limit, 6)), "expected message #%d (t=%d, %s) is absent; got %v, expected %v", m.seq, m.id.Time(), model.Join(m.levels), seqs(got), seqs(exp))
		}
	}
	for _, m := range got {
		if !expSet[string(m.id)] {
			c.Check("not-latest", fmt.Sprintf("cont=%v extra", after != nil), "message #%d is not among the newest %d live matching messages; got %v, expected %v", m.seq, limit, seqs(got), seqs(exp))
		}
	}
	if len(exp) > 0 {
		c.NonTrivial()
	}
	c.State(fmt.Sprintf("depth=%d exp=%d limit=%d cont=%v", len(filter), min(len(exp), 5), min(limit, 6), after != nil))
	return got
}

func seqs(ms []*c06Msg) []int {
	var out []int
	for _, m := range ms {
		out = append(out, m.seq)
	}
	sort.Ints(out)
	return out
}
