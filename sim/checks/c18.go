package checks

import (
	"encoding/json"
	"fmt"
	"github.com/emitter-io/emitter/internal/verifauto"
	"sort"
	"strings"
	"time"

	"github.com/eclipse/paho.mqtt.golang/packets"
	"github.com/emitter-io/emitter/verifsim/kernel"
	"github.com/emitter-io/emitter/verifsim/model"
	"github.com/emitter-io/emitter/verifsim/mqttc"
	"github.com/emitter-io/emitter/verifsim/world"
)

// C18 — presence reports who is subscribed.

func init() {
	kernel.Register(&kernel.World{
		Property: "C18", Bubble: true, Run: runC18, RunsPerProc: 150, RunTimeout: 300 * time.Second,
		Rule:        "one run = one real broker (emitter or mqtt matcher; cluster configured, or absent in the 'nocluster' campaign) and 3-5 clients with usernames; tape-generated subscribe / unsubscribe / abrupt disconnect + reconnect on literal channels of depth 1-3 over {a,b}, presence requests (status and/or changes on/off, keys with/without the presence permission) on exact and parent channels. Every status reply must list exactly the (connection id, username) pairs of the model that would receive a publish on that channel; every watcher's notification stream must contain one subscribe / unsubscribe per transition on the watched channel or below (emitter matcher; exact channel under the mqtt matcher), in per-connection order, and nothing after it cancelled. non-trivial = >= 1 status reply with a non-empty expected list or >= 1 expected notification; distinct = distinct canonical logs",
		Real:        []string{"broker.Service, broker.Conn", "presence service (OnRequest, Notify queue, lookupPresence)", "pubsub, message.Trie", "survey.Surveyor"},
		Stub:        []string{"client sockets (simnet)", "weaveworks/mesh (simmesh, single node)", "clock (synctest)"},
		Assumptions: []string{"subscriptions use literal filters: the statement does not say whether a '+' filter is 'on a sub-channel' of a watched channel", "under the mqtt matcher only watchers of the exact channel are asserted"},
	})
}

type c18Client struct {
	cl       *mqttc.Client
	idx      int
	user     string
	subs     map[string]bool
	watching map[string]bool // channels with changes on
	expect   []string        // expected notifications (in order per source connection)
}

func runC18(c *kernel.Ctx) {
	t := c.Tape
	c.SleepToEpoch()
	lic := world.Licenses[t.Choose(3)]
	mode := ""
	if t.Chance(1, 3) {
		mode = "mqtt"
	}
	stall := c.Params["campaign"] == "stall" || (c.Params["campaign"] == "" && t.Chance(1, 6))
	if stall {
		mode = "" // the stalled watcher watches a parent channel (prefix semantics)
	}
	cluster := c.Params["campaign"] != "nocluster"
	if c.Params["campaign"] == "" && t.Chance(1, 4) {
		cluster = false // the 'cluster' section is optional in the configuration
	}
	b := world.StartBroker(c, world.BrokerOpts{Lic: lic, Matcher: mode, Cluster: cluster, NodeName: "00:00:00:00:00:01", Advertise: "10.0.0.1:4000", StateDir: ":memory:"})
	defer b.Close()
	c.Logf("mode=%q cluster=%v lic=v%d", mode, cluster, lic.Ver)
	admin := b.Attach("admin")
	world.ConnectClient(c, admin, "admin", "", nil)
	kP := world.Keygen(c, admin, lic.Master, "#/", "rwp", 0)
	kNoP := world.Keygen(c, admin, lic.Master, "#/", "rw", 0)
	admin.Send(mqttc.Disconnect())
	world.Settle()
	if stall {
		runC18Stall(c, b, kP, kNoP)
		return
	}
	// a third of the runs: the broker's goroutines (connections, the presence notification loop) are
	// interleaved by the tape at the boundaries tools/autoyield put around the mutex operations of the
	// trie and the presence service (nobody parks while holding a mutex)
	sched := t.Chance(1, 3)
	baton := kernel.NewBaton()
	if sched {
		baton.Auto = []string{"internal/message/subtrie.go", "internal/service/presence/"}
		baton.AutoSkip = []string{":Trie.Count:"}
		verifauto.Hook, verifauto.AcquireHook, verifauto.LockHook = baton.Hook, baton.AcquireHook, baton.LockHook
		defer func() { verifauto.Hook, verifauto.AcquireHook, verifauto.LockHook = nil, nil, nil }()
		defer baton.ReleaseAll()
	}
	settle := func() {
		world.Settle()
		if !sched {
			return
		}
		if _, stuck := baton.Drive(t, world.Settle, func(p *kernel.Parked, runnable, waiting int) {
			c.Logf("  task crosses %s (%d of %d can run)", p.Site, runnable, waiting)
		}, 2000); stuck {
			c.Harnessf("C18 sched: %d tasks parked, none can run", baton.Waiting())
		}
	}
	var clients []*c18Client
	nc := 0
	attach := func() *c18Client {
		nc++
		cl := b.Attach(fmt.Sprintf("c%d", nc))
		user := fmt.Sprintf("user%d", nc)
		world.ConnectClient(c, cl, fmt.Sprintf("c%d", nc), user, nil)
		cc := &c18Client{cl: cl, idx: nc, user: user, subs: map[string]bool{}, watching: map[string]bool{}}
		clients = append(clients, cc)
		return cc
	}
	for i := 0; i < t.Range(3, 5); i++ {
		attach()
	}
	if sched {
		baton.SetActive(true)
	}
	c.Logf("sched=%v", sched)
	lits := []string{"a", "b"}
	genChan := func() []string {
		d := t.Range(1, 3)
		var lv []string
		for i := 0; i < d; i++ {
			lv = append(lv, lits[t.Choose(2)])
		}
		return lv
	}
	live := func() []*c18Client {
		var out []*c18Client
		for _, x := range clients {
			if !x.cl.Gone {
				out = append(out, x)
			}
		}
		return out
	}
	watches := func(wc *c18Client, ch []string) bool {
		for f := range wc.watching {
			fl := model.Levels(f)
			if mode == "mqtt" {
				if model.Join(fl) == model.Join(ch) {
					return true
				}
			} else if model.MatchEmitter(fl, ch) {
				return true
			}
		}
		return false
	}
	notify := func(ev string, src *c18Client, ch []string) {
		for _, wc := range live() {
			if watches(wc, ch) {
				wc.expect = append(wc.expect, fmt.Sprintf("%s %s %s", ev, model.Join(ch), src.user))
				c.NonTrivial()
			}
		}
	}
	verify := func() {
		for _, wc := range live() {
			pk, err := wc.cl.Recv()
			if err != nil {
				c.Failf("notify-extra", "undecodable", "%v", err)
			}
			evs, _ := presenceEvents(pk)
			exp := wc.expect
			wc.expect = nil
			// per-source order must be kept; cross-source order is free
			bySrc := func(l []string) map[string][]string {
				m := map[string][]string{}
				for _, e := range l {
					f := strings.Fields(e)
					m[f[2]] = append(m[f[2]], e)
				}
				return m
			}
			ge, ee := bySrc(evs), bySrc(exp)
			c.Logf("c%d notifications %v", wc.idx, sortedCopy(evs))
			for src, el := range ee {
				gl := ge[src]
				if strings.Join(gl, ";") == strings.Join(el, ";") {
					continue
				}
				gs, es := sortedCopy(gl), sortedCopy(el)
				disc := fmt.Sprintf("mode=%s", mode)
				switch {
				case strings.Join(gs, ";") == strings.Join(es, ";"):
					c.Check("notify-order", disc, "watcher c%d got the transitions of %s in another order: %v, made in order %v", wc.idx, src, gl, el)
				case len(gl) < len(el):
					c.Check("notify-missing", disc, "watcher c%d (watching %v) expected %v from %s, got %v", wc.idx, sortedKeys(wc.watching), el, src, gl)
				default:
					c.Check("notify-extra", disc, "watcher c%d (watching %v) expected %v from %s, got %v", wc.idx, sortedKeys(wc.watching), el, src, gl)
				}
			}
			for src, gl := range ge {
				if len(ee[src]) == 0 && len(gl) > 0 {
					rule := "notify-extra"
					if len(wc.watching) == 0 {
						rule = "after-cancel"
					}
					c.Check(rule, fmt.Sprintf("mode=%s", mode), "watcher c%d (watching %v) got unexpected notifications %v", wc.idx, sortedKeys(wc.watching), gl)
				}
			}
		}
	}
	steps := t.Range(15, 100)
	for s := 0; s < steps && !t.Exhausted(); s++ {
		c.Step()
		lv := live()
		if len(lv) == 0 {
			attach()
			continue
		}
		cc := lv[t.Choose(len(lv))]
		switch k := t.Choose(20); {
		case k < 6 && t.Chance(1, 5): // two transitions of one connection in one write: their notifications are in flight together
			ch := genChan()
			name := model.Join(ch)
			var buf []byte
			if cc.subs[name] {
				buf = append(mqttc.Encode(cc.cl.Unsubscribe(kNoP+"/"+name)), mqttc.Encode(cc.cl.Subscribe(kNoP+"/"+name))...)
				c.Logf("c%d unsubscribe+subscribe %s in one write", cc.idx, name)
				notify("unsubscribe", cc, ch)
				notify("subscribe", cc, ch)
			} else {
				buf = append(mqttc.Encode(cc.cl.Subscribe(kNoP+"/"+name)), mqttc.Encode(cc.cl.Unsubscribe(kNoP+"/"+name))...)
				c.Logf("c%d subscribe+unsubscribe %s in one write", cc.idx, name)
				notify("subscribe", cc, ch)
				notify("unsubscribe", cc, ch)
			}
			c.Probe("two-transitions-in-flight")
			cc.cl.Write(buf)
			settle()
		case k < 6: // subscribe
			ch := genChan()
			cc.cl.Send(cc.cl.Subscribe(kNoP + "/" + model.Join(ch)))
			settle()
			c.Logf("c%d subscribe %s", cc.idx, model.Join(ch))
			if !cc.subs[model.Join(ch)] {
				cc.subs[model.Join(ch)] = true
				notify("subscribe", cc, ch)
			}
		case k < 9: // unsubscribe
			ch := genChan()
			if hk := sortedKeys(cc.subs); len(hk) > 0 && t.Chance(3, 4) {
				ch = model.Levels(hk[t.Choose(len(hk))])
			}
			cc.cl.Send(cc.cl.Unsubscribe(kNoP + "/" + model.Join(ch)))
			settle()
			c.Logf("c%d unsubscribe %s", cc.idx, model.Join(ch))
			if cc.subs[model.Join(ch)] {
				delete(cc.subs, model.Join(ch))
				notify("unsubscribe", cc, ch)
			}
		case k < 11: // the connection goes away
			cc.cl.Conn.Close()
			cc.cl.Gone = true
			settle()
			c.Logf("c%d disconnects holding %v", cc.idx, sortedKeys(cc.subs))
			for _, f := range sortedKeys(cc.subs) {
				notify("unsubscribe", cc, model.Levels(f))
			}
			// the order in which the subscriptions of a closing connection end is not defined: compare as a set
			for _, wc := range live() {
				n := 0
				for _, e := range wc.expect {
					if strings.HasSuffix(e, " "+cc.user) && strings.HasPrefix(e, "unsubscribe") {
						n++
					}
				}
				if n > 1 {
					pk, _ := wc.cl.Recv()
					evs, _ := presenceEvents(pk)
					if strings.Join(sortedCopy(evs), ";") != strings.Join(sortedCopy(wc.expect), ";") {
						c.Check("notify-missing", "disconnect", "watcher c%d expected %v when c%d went away, got %v", wc.idx, sortedCopy(wc.expect), cc.idx, sortedCopy(evs))
					}
					wc.expect = nil
				}
			}
			if t.Chance(1, 2) {
				attach()
			}
		default: // presence request
			key := kP
			if t.Chance(1, 6) {
				key = kNoP
			}
			ch := genChan()
			status := t.Chance(2, 3)
			body := map[string]any{"key": key, "channel": model.Join(ch), "status": status}
			var changes *bool
			if t.Chance(2, 3) {
				v := t.Chance(2, 3)
				changes = &v
				body["changes"] = v
			}
			cc.cl.Recv()
			cc.cl.Send(cc.cl.Publish("emitter/presence/", mustJSON(body), false, false))
			settle()
			pk, err := cc.cl.Recv()
			if err != nil {
				c.Failf("status", "undecodable", "%v", err)
			}
			var resp *struct {
				Status int    `json:"status"`
				Event  string `json:"event"`
				Who    []struct {
					ID       string `json:"id"`
					Username string `json:"username"`
				} `json:"who"`
			}
			var rest []packets.ControlPacket
			for _, x := range pk {
				if pub, ok := x.(*packets.PublishPacket); ok && pub.TopicName == "emitter/presence/" && resp == nil {
					var r struct {
						Status int    `json:"status"`
						Event  string `json:"event"`
						Who    []struct {
							ID       string `json:"id"`
							Username string `json:"username"`
						} `json:"who"`
					}
					if json.Unmarshal(pub.Payload, &r) == nil && r.Status != 0 {
						resp = &r
						continue
					}
				}
				rest = append(rest, x)
			}
			chg := "absent"
			if changes != nil {
				chg = fmt.Sprint(*changes)
			}
			c.Logf("c%d presence %s status=%v changes=%s key=%v", cc.idx, model.Join(ch), status, chg, key == kP)
			if cc.cl.Conn.PeerClosed() {
				c.Check("status", fmt.Sprintf("connection-closed cluster=%v", cluster), "the broker closed the connection while serving a presence request (status=%v changes=%v cluster configured=%v)", status, changes != nil, cluster)
				cc.cl.Gone = true
				for _, f := range sortedKeys(cc.subs) {
					notify("unsubscribe", cc, model.Levels(f))
				}
				verifyDrop(clients)
				continue
			}
			if resp == nil {
				c.Check("status", "no-reply", "presence request got no reply")
				continue
			}
			if key != kP {
				if resp.Status == 200 {
					c.Check("status", "unauthorised", "a key without the presence permission was served")
				}
				break
			}
			if resp.Status != 200 {
				c.Check("status", "refused", "presence request refused with status %d", resp.Status)
				break
			}
			if changes != nil {
				if *changes {
					cc.watching[model.Join(ch)] = true
				} else {
					delete(cc.watching, model.Join(ch))
				}
			}
			if status {
				var got, exp []string
				for _, w := range resp.Who {
					got = append(got, w.ID+"/"+w.Username)
				}
				for _, x := range live() {
					for f := range x.subs {
						if model.Match(mode, model.Levels(f), ch) {
							exp = append(exp, x.cl.ID+"/"+x.user)
							break
						}
					}
				}
				sort.Strings(got)
				sort.Strings(exp)
				if strings.Join(got, ",") != strings.Join(exp, ",") {
					disc := "missing"
					if len(got) > len(exp) {
						disc = "extra"
					}
					c.Check("status", disc+" mode="+mode, "presence status of %s lists %d connections %v, the model has %d: %v", model.Join(ch), len(got), users(got), len(exp), users(exp))
				}
				if len(exp) > 0 {
					c.NonTrivial()
				}
				c.State(fmt.Sprintf("status depth=%d who=%d", len(ch), len(exp)))
			}
			// notifications that arrived with the reply are checked below
			for _, x := range rest {
				_ = x
			}
			evs, _ := presenceEvents(rest)
			if len(evs) > 0 {
				// put them back in front of the verifier: re-check through expect
				gl := strings.Join(evs, ";")
				el := strings.Join(cc.expect, ";")
				if gl != el {
					c.Check("notify-extra", "with-reply", "watcher c%d got %v together with a presence reply, expected %v", cc.idx, evs, cc.expect)
				}
				cc.expect = nil
			}
		}
		verify()
	}
}

func verifyDrop(cs []*c18Client) {
	for _, x := range cs {
		x.expect = nil
		if !x.cl.Gone {
			x.cl.Recv()
		}
	}
}

func mustJSON(v any) []byte {
	b, _ := json.Marshal(v)
	return b
}

func sortedCopy(l []string) []string {
	o := append([]string(nil), l...)
	sort.Strings(o)
	return o
}

func users(l []string) []string {
	var o []string
	for _, x := range l {
		if i := strings.IndexByte(x, '/'); i >= 0 {
			o = append(o, x[i+1:])
		}
	}
	return o
}

// runC18Stall: a watcher that stops reading its socket (slow consumer) while
// other connections make more transitions than the presence queue holds; once
// it reads again every watcher must have been told about every transition.
func runC18Stall(c *kernel.Ctx, b *world.Broker, kP, kNoP string) {
	t := c.Tape
	mk := func(name string) *mqttc.Client {
		cl := b.Attach(name)
		world.ConnectClient(c, cl, name, name, nil)
		return cl
	}
	slow, healthy := mk("slow"), mk("healthy")
	yes := true
	for _, w := range []*mqttc.Client{slow, healthy} {
		r, _ := world.Request(c, w, "presence", map[string]any{"key": kP, "channel": "a/", "status": false, "changes": &yes})
		if r == nil || r.Status != 200 {
			c.Harnessf("watcher setup: %+v", r)
		}
	}
	nsub := t.Range(2, 3)
	var subs []*mqttc.Client
	for i := 0; i < nsub; i++ {
		subs = append(subs, mk(fmt.Sprintf("s%d", i)))
	}
	// the slow watcher's socket buffer is tiny and it stops reading
	slow.Conn.SetPeerWriteLimit(t.Range(64, 512))
	n := t.Range(110, 160)
	c.Logf("stall campaign: %d transitions, %d subscribers", n, nsub)
	c.Fault("slow-consumer")
	for i := 0; i < n; i++ {
		s := subs[i%nsub]
		s.Send(s.Subscribe(fmt.Sprintf("%s/a/n%d/", kNoP, i)))
		world.Settle()
		healthy.Recv()
	}
	// while the backlog stands, one connection goes back and forth between two sub-channels: whatever the
	// presence service does to work a backlog off, the watcher is told in the order the connection went
	pattern := []struct {
		sub bool
		ch  string
	}{{true, "a/x/"}, {true, "a/y/"}, {false, "a/x/"}, {false, "a/y/"}, {true, "a/x/"}}
	var wantOrder []string
	for _, op := range pattern {
		if op.sub {
			subs[0].Send(subs[0].Subscribe(kNoP + "/" + op.ch))
			wantOrder = append(wantOrder, "subscribe "+op.ch+" s0")
		} else {
			subs[0].Send(subs[0].Unsubscribe(kNoP + "/" + op.ch))
			wantOrder = append(wantOrder, "unsubscribe "+op.ch+" s0")
		}
		world.Settle()
		healthy.Recv()
	}
	var gotOrder []string
	// the watcher reads again, until nothing more arrives
	got := map[string]int{}
	hgot := map[string]int{}
	for round := 0; round < 8000; round++ {
		arrived := slow.Conn.Pending()
		pk, err := slow.Recv()
		if err != nil {
			c.Failf("notify-missing", "undecodable", "%v", err)
		}
		evs, _ := presenceEvents(pk)
		for _, e := range evs {
			got[e]++
			if strings.HasSuffix(e, " s0") && (strings.Contains(e, " a/x/ ") || strings.Contains(e, " a/y/ ")) {
				gotOrder = append(gotOrder, e)
			}
		}
		world.Settle()
		hp, _ := healthy.Recv()
		hevs, _ := presenceEvents(hp)
		for _, e := range hevs {
			hgot[e]++
		}
		if arrived == 0 && len(pk) == 0 && len(hp) == 0 && round > 2 { // a packet may arrive in many pieces of the tiny buffer's size
			break
		}
	}
	_ = hgot
	// (the healthy watcher's earlier notifications were drained inside the loop above without counting:
	// count what each watcher has seen in total through the slow one, which saw nothing before)
	missing, dup := 0, 0
	for i := 0; i < n; i++ {
		k := fmt.Sprintf("subscribe a/n%d/ s%d", i, i%nsub)
		switch got[k] {
		case 1:
		case 0:
			missing++
		default:
			dup++
		}
	}
	if missing > 0 {
		c.Check("notify-missing", "slow-consumer", "a watcher that stopped reading for a while was never told about %d of %d subscriptions made meanwhile (it reads again now)", missing, n)
	}
	if dup > 0 {
		c.Check("notify-extra", "slow-consumer", "%d notifications arrived twice at the slow watcher", dup)
	}
	if strings.Join(gotOrder, "; ") != strings.Join(wantOrder, "; ") {
		rule := "notify-order"
		if strings.Join(sortedCopy(gotOrder), ";") != strings.Join(sortedCopy(wantOrder), ";") {
			rule = "notify-missing"
		}
		c.Check(rule, "slow-consumer back-and-forth", "connection s0 went [%s] while the watcher's backlog stood; the watcher was told [%s]", strings.Join(wantOrder, "; "), strings.Join(gotOrder, "; "))
	}
	// every subscriber must have been acknowledged in the end
	for i, s := range subs {
		pk, _ := s.Recv()
		acks := 0
		for _, x := range pk {
			if _, ok := x.(*packets.SubackPacket); ok {
				acks++
			}
		}
		want := n / nsub
		if i < n%nsub {
			want++
		}
		if i == 0 {
			want += 3 // the three subscriptions of the back-and-forth pattern
		}
		if acks != want {
			c.Check("notify-missing", "slow-consumer suback", "subscriber s%d got %d of %d SUBACKs after the slow watcher resumed", i, acks, want)
		}
	}
	c.NonTrivial()
	c.Probe("presence-queue-filled")
}
