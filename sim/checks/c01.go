package checks

import (
	"fmt"
	"sort"
	"strings"

	"github.com/emitter-io/emitter/internal/message"
	"github.com/emitter-io/emitter/internal/security/hash"
	"github.com/emitter-io/emitter/verifsim/kernel"
	"github.com/emitter-io/emitter/verifsim/model"
)

// C01 — the subscription trie: exactly the matching subscribers, one member
// per share group, empty again when everything is removed.

func init() {
	kernel.Register(&kernel.World{
		Property: "C01", Bubble: false, Run: runC01, RunsPerProc: 20000,
		Rule: "one run = 1-4 caller tasks, each a tape-generated sequence of Subscribe/Unsubscribe/Lookup (with and without a filter function) on the real message.Trie (emitter or mqtt constructor by tape), interleaved by the tape at operation granularity; filters over 2 contracts, levels {a,b,c}, '+', trailing '#' (mqtt mode), share groups {g1,g2}, 5 subscribers; after every operation Count, the full dump, the node count and every Lookup result are compared with a set model; non-trivial = at least one Lookup with a non-empty expected result; distinct = distinct canonical logs",
		Real:  []string{"message.Trie (Subscribe, Unsubscribe, Lookup, lookupEmitter, lookupMqtt, randomByGroup, orphan)", "message.Subscribers"},
		Stub:  []string{"subscribers (test doubles with an id)", "caller tasks (sequential interleaving of whole operations)"},
		Assumptions: []string{"each Trie operation is one critical section: concurrency is explored as permutations of atomic operations (a removed lock is invisible, DESIGN.md 9)", "subscriber ids have distinct 32-bit hashes"},
	})
}

type c01Sub struct{ id string }

func (s *c01Sub) ID() string                       { return s.id }
func (s *c01Sub) Type() message.SubscriberType      { return message.SubscriberDirect }
func (s *c01Sub) Send(*message.Message) error       { return nil }

type c01Filter struct {
	contract int
	group    string // "" = ordinary
	levels   []string
}

func (f c01Filter) String() string {
	g := ""
	if f.group != "" {
		g = "$share/" + f.group + "/"
	}
	return fmt.Sprintf("c%d:%s%s", f.contract, g, model.Join(f.levels))
}

func (f c01Filter) ssid() message.Ssid {
	contracts := []uint32{1001, 2002}
	lv := f.levels
	s := model.Ssid(contracts[f.contract], lv)
	if f.group != "" {
		s = message.NewSsidForShare(s)
		// [contract, share, levels...] -> insert group after share
		out := append(message.Ssid{}, s[0], s[1], hash.OfString(f.group))
		out = append(out, s[2:]...)
		return out
	}
	return s
}

func runC01(c *kernel.Ctx) {
	t := c.Tape
	if c.Params["campaign"] != "single" && (c.Params["campaign"] == "conc" || t.Chance(1, 8)) {
		runC01Concurrent(c)
		return
	}
	mode := ""
	trie := message.NewTrie()
	if t.Chance(1, 2) {
		mode = "mqtt"
		trie = message.NewTrieMQTT()
	}
	c.Logf("mode=%q", mode)
	subs := []*c01Sub{{"s1"}, {"s2"}, {"s3"}, {"s4"}, {"s5"}}
	set := map[string]c01Filter{} // key: filter|sub
	owner := map[string]string{}
	lits := []string{"a", "b", "c"}
	genFilter := func() c01Filter {
		f := c01Filter{contract: t.Choose(2)}
		if t.Chance(1, 4) {
			f.group = []string{"g1", "g2"}[t.Choose(2)]
		}
		d := t.Range(1, 4)
		for i := 0; i < d; i++ {
			if t.Chance(1, 5) {
				f.levels = append(f.levels, "+")
			} else {
				f.levels = append(f.levels, lits[t.Choose(3)])
			}
		}
		if mode == "mqtt" && t.Chance(1, 5) {
			if t.Chance(1, 4) {
				f.levels = []string{"#"}
			} else {
				f.levels = append(f.levels[:len(f.levels)-1], "#")
				if len(f.levels) == 1 && t.Chance(1, 2) {
					f.levels = []string{lits[t.Choose(3)], "#"}
				}
			}
		}
		return f
	}
	callers := t.Range(1, 4)
	nops := t.Range(5, 60)
	for i := 0; i < nops && !t.Exhausted(); i++ {
		c.Step()
		caller := t.Choose(callers)
		switch k := t.Choose(10); {
		case k < 4:
			f := genFilter()
			s := subs[t.Choose(len(subs))]
			trie.Subscribe(f.ssid(), s)
			set[f.String()+"|"+s.id] = f
			owner[f.String()+"|"+s.id] = s.id
			c.Logf("t%d sub %s %s", caller, f, s.id)
		case k < 7:
			var f c01Filter
			var sid string
			if len(set) > 0 && t.Chance(4, 5) {
				keys := make([]string, 0, len(set))
				for k := range set {
					keys = append(keys, k)
				}
				sort.Strings(keys)
				k := keys[t.Choose(len(keys))]
				f, sid = set[k], owner[k]
			} else {
				f, sid = genFilter(), subs[t.Choose(len(subs))].id
			}
			var s *c01Sub
			for _, x := range subs {
				if x.id == sid {
					s = x
				}
			}
			trie.Unsubscribe(f.ssid(), s)
			delete(set, f.String()+"|"+sid)
			delete(owner, f.String()+"|"+sid)
			c.Logf("t%d unsub %s %s", caller, f, sid)
		default:
			contract := t.Choose(2)
			d := t.Range(1, 4)
			var ch []string
			for j := 0; j < d; j++ {
				ch = append(ch, lits[t.Choose(3)])
			}
			var flt func(message.Subscriber) bool
			excl := ""
			if t.Chance(1, 3) {
				excl = subs[t.Choose(len(subs))].id
				flt = func(s message.Subscriber) bool { return s.ID() != excl }
			}
			q := c01Filter{contract: contract, levels: ch}
			res := trie.Lookup(q.ssid(), flt)
			got := []string{}
			for _, s := range res {
				got = append(got, s.ID())
			}
			sort.Strings(got)
			c01CheckLookup(c, mode, set, owner, contract, ch, excl, got)
			c.Logf("t%d lookup c%d:%s excl=%s", caller, contract, model.Join(ch), excl)
		}
		// invariants after every operation
		if n := trie.Count(); n != len(set) {
			c.Failf("count", "count", "Count()=%d, model has %d pairs", n, len(set))
		}
		nodes, entries := trie.VerifDump()
		gotSet := map[string]bool{}
		for _, e := range entries {
			gotSet[fmt.Sprintf("%v|%s", e.Ssid, e.ID)] = true
		}
		expSet := map[string]bool{}
		prefixes := map[string]bool{}
		for k, f := range set {
			s := f.ssid()
			expSet[fmt.Sprintf("%v|%s", s, owner[k])] = true
			for i := 1; i <= len(s); i++ {
				prefixes[fmt.Sprint(s[:i])] = true
			}
		}
		if len(gotSet) != len(entries) {
			c.Failf("dump", "duplicate-entry", "the trie stores a pair twice")
		}
		for k := range expSet {
			if !gotSet[k] {
				c.Failf("dump", "missing-entry", "stored pairs differ from the model: %s missing", k)
			}
		}
		for k := range gotSet {
			if !expSet[k] {
				c.Failf("dump", "extra-entry", "stored pairs differ from the model: %s should not be stored", k)
			}
		}
		if nodes != 1+len(prefixes) {
			rule := "dump"
			if len(set) == 0 {
				rule = "empty"
			}
			c.Failf(rule, "nodes", "trie has %d nodes, %d expected for %d stored pairs (empty branches must be pruned)", nodes, 1+len(prefixes), len(set))
		}
		c.State(fmt.Sprintf("pairs=%d nodes=%d", len(set), nodes))
	}
	// finally remove everything: the index must be empty again
	keys := make([]string, 0, len(set))
	for k := range set {
		keys = append(keys, k)
	}
	sort.Strings(keys)
	for _, k := range keys {
		f := set[k]
		for _, x := range subs {
			if x.id == owner[k] {
				trie.Unsubscribe(f.ssid(), x)
			}
		}
	}
	if nodes, entries := trie.VerifDump(); nodes != 1 || len(entries) != 0 || trie.Count() != 0 {
		c.Failf("empty", "final", "after removing every subscription the index still has %d nodes, %d pairs, Count()=%d", nodes, len(entries), trie.Count())
	}
}

func c01CheckLookup(c *kernel.Ctx, mode string, set map[string]c01Filter, owner map[string]string, contract int, ch []string, excl string, got []string) {
	direct := map[string]bool{}
	groups := map[string]map[string]bool{}
	for k, f := range set {
		if f.contract != contract || owner[k] == excl {
			continue
		}
		if !model.Match(mode, f.levels, ch) {
			continue
		}
		if f.group == "" {
			direct[owner[k]] = true
		} else {
			if groups[f.group] == nil {
				groups[f.group] = map[string]bool{}
			}
			groups[f.group][owner[k]] = true
		}
	}
	gotSet := map[string]bool{}
	for _, g := range got {
		if gotSet[g] {
			c.Failf("lookup", "duplicate", "subscriber %s returned twice", g)
		}
		gotSet[g] = true
	}
	for d := range direct {
		if !gotSet[d] {
			c.Failf("lookup", "missing-direct", "lookup c%d:%s: matching subscriber %s not returned (got %v)", contract, model.Join(ch), d, got)
		}
	}
	// there must be a choice of one member per group explaining the result
	gnames := make([]string, 0, len(groups))
	for g := range groups {
		gnames = append(gnames, g)
	}
	sort.Strings(gnames)
	var try func(i int, acc map[string]bool) bool
	try = func(i int, acc map[string]bool) bool {
		if i == len(gnames) {
			if len(acc) != len(gotSet) {
				return false
			}
			for k := range acc {
				if !gotSet[k] {
					return false
				}
			}
			return true
		}
		for m := range groups[gnames[i]] {
			had := acc[m]
			acc[m] = true
			if try(i+1, acc) {
				return true
			}
			if !had {
				delete(acc, m)
			}
		}
		return false
	}
	acc := map[string]bool{}
	for d := range direct {
		acc[d] = true
	}
	if !try(0, acc) {
		var gs []string
		for _, g := range gnames {
			ms := make([]string, 0)
			for m := range groups[g] {
				ms = append(ms, m)
			}
			sort.Strings(ms)
			gs = append(gs, g+"="+strings.Join(ms, ","))
		}
		dl := make([]string, 0)
		for d := range direct {
			dl = append(dl, d)
		}
		sort.Strings(dl)
		disc := "extra"
		if len(got) < len(direct)+len(gnames) {
			disc = "share-missing"
		}
		c.Failf("lookup", disc, "lookup c%d:%s (mode %q, excluded %q) returned %v; expected direct %v plus exactly one member of each group %v", contract, model.Join(ch), mode, excl, got, dl, gs)
	}
	{ // the share-group pick is random by design: the log records "one member of g", not who
		dl := make([]string, 0, len(direct))
		for d := range direct {
			dl = append(dl, d)
		}
		sort.Strings(dl)
		c.Logf("  -> direct %v + one of each %v", dl, gnames)
	}
	if len(direct)+len(groups) > 0 {
		c.NonTrivial()
	}
	if len(groups) > 0 {
		c.Probe("lookup-with-share-group")
	}
}
