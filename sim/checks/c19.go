package checks

import (
	"bytes"
	"fmt"
	"time"

	"github.com/emitter-io/emitter/internal/message"
	"github.com/emitter-io/emitter/internal/verifyield"
	"github.com/emitter-io/emitter/verifsim/kernel"
	"github.com/emitter-io/emitter/verifsim/world"
	"github.com/weaveworks/mesh"
)

// C19 — ids against the simulated clock, Frame.Split, and the peer send queue
// interleaved with its 5 ms flush: everything handed to an active peer reaches
// the transport once and in order.

func init() {
	kernel.Register(&kernel.World{
		Property: "C19", Bubble: true, Run: runC19, RunsPerProc: 80, RunTimeout: 300 * time.Second,
		Rule:        "one run = 2-3 real brokers on the simulated mesh; the tape interleaves Swarm.SendTo calls (messages of tape-chosen size, ids created by message.New at that simulated instant) to 1-2 peers with clock advances of 1 ns .. 35 s (5 ms flush of the peer queue, emitter's 5 s update that keeps a peer active, inactivity past 30 s after a partition), link loss and heal; every payload handed to GossipUnicast is captured, decoded with DecodeFrame and concatenated per destination: it must equal, in order and once each, the messages for which SendTo returned nil (id, channel, payload, ttl unchanged). Along the way every created id must give back its ssid and the simulated second, ids created later for a channel must sort before earlier ones, no two ids are equal, and Frame.Split at tape-chosen bounds must keep head ++ tail = frame with the head below the bound. non-trivial = >= 5 messages reached the transport; distinct = distinct canonical logs",
		Real:        []string{"cluster.Swarm.SendTo / findPeer / update", "cluster.Peer (Send, swap, processSendQueue)", "message.NewID / ID accessors", "message.Frame (Encode, DecodeFrame, Split)"},
		Stub:        []string{"weaveworks/mesh (simmesh: GossipUnicast capture)", "clock (synctest)"},
		Assumptions: []string{"main campaign: senders are interleaved with the flush at the granularity of whole SendTo calls (one simulator goroutine); parallel campaign (1 run in 5): 2-3 sender goroutines and the flush task interleaved at the atomic counter of NewID and the mutex boundaries of cluster.Peer"},
	})
}

func runC19(c *kernel.Ctx) {
	if c.Params["campaign"] != "single" && (c.Params["campaign"] == "parallel" || c.Tape.Chance(1, 5)) {
		runC19Parallel(c)
		return
	}
	defer func() { mesh.Net = nil }()
	t := c.Tape
	c.SleepToEpoch()
	n := t.Range(2, 3)
	cl := world.NewCluster(c, n, world.Licenses[2], func(i int, o *world.BrokerOpts) { o.StateDir = ":memory:" })
	defer cl.Close()
	// the flush of a peer queue runs on a timer goroutine: it parks at the yield
	// points inside processSendQueue and the tape decides when it continues, so
	// that SendTo calls land between its swap and its encode
	baton := kernel.NewBaton()
	baton.OnlySites = []string{"cluster.Peer.processSendQueue:swapped", "cluster.Peer.processSendQueue:chunk"}
	verifyield.Hook = baton.Hook
	defer func() { baton.ReleaseAll(); verifyield.Hook = nil }()
	type rec struct {
		id, ch, pl []byte
		ttl        uint32
		optional   bool // handed over, then the peer was declared unreachable before the flush: may or may not reach the transport
	}
	got := map[mesh.PeerName][]rec{}
	var decodeErr error
	cl.Net.H.OnUnicast = func(from, dst mesh.PeerName, msg []byte, err error) {
		if from != cl.Name(0) {
			return
		}
		f, derr := message.DecodeFrame(msg)
		if derr != nil {
			decodeErr = derr
			return
		}
		for _, m := range f {
			got[dst] = append(got[dst], rec{append([]byte(nil), m.ID...), append([]byte(nil), m.Channel...), append([]byte(nil), m.Payload...), m.TTL, false})
		}
	}
	cl.LinkAll()
	cl.Drain(1000)
	cl.AdvanceNet(6 * time.Second)
	cl.Drain(1000)
	sw := cl.Brokers[0].Svc.VerifSwarm()
	if n == 2 {
		// with two peers the creation order of their flush goroutines follows Go map
		// iteration (merge order) and a tape index would not always name the same task
		baton.SetActive(true)
	}
	want := map[mesh.PeerName][]rec{}
	// A peer that is declared unreachable is closed together with its queue: what
	// was handed over but not yet flushed may be dropped there instead of by the
	// transport (it could not have been delivered anyway).
	cl.Net.H.OnGC = func(at, peer mesh.PeerName) {
		if at == cl.Name(0) {
			seen := map[string]bool{}
			for _, g := range got[peer] {
				seen[string(g.id)] = true
			}
			for i := range want[peer] {
				if !seen[string(want[peer][i].id)] && !want[peer][i].optional {
					want[peer][i].optional = true
					c.Probe("queued-message-with-offline-peer")
				}
			}
		}
	}
	ssids := []message.Ssid{{7, 11, 12}, {7, 11}, {9, 11, 12}}
	lastID := map[int][]byte{}
	seen := map[string]bool{}
	seq := 0
	steps := t.Range(20, 150)
	for s := 0; s < steps && !t.Exhausted(); s++ {
		c.Step()
		switch k := t.Choose(20); {
		case k < 11: // hand a message to a peer
			dst := cl.Name(1 + t.Choose(n-1))
			// sometimes a burst: more messages for one peer between two flushes than any batch size in the code
			burst := 1
			if t.Chance(1, 14) {
				burst = t.Range(130, 260)
				c.Probe("burst-over-128-messages-for-one-peer")
			}
			for bi := 0; bi < burst; bi++ {
				si := t.Choose(len(ssids))
				seq++
				size := []int{0, 1, 10, 200, 4000, 60000}[t.Choose(6)]
				if burst > 1 {
					size = size % 11
				}
				payload := bytes.Repeat([]byte{byte('a' + seq%26)}, size)
				payload = append(payload, []byte(fmt.Sprintf("#%d", seq))...)
				m := message.New(ssids[si], []byte(fmt.Sprintf("ch%d/", si)), payload)
				m.TTL = uint32(t.Choose(3)) * 1000
				// --- id properties against the simulated clock
				now := time.Now().Unix()
				if m.ID.Time() != now {
					c.Failf("id-fields", "time", "id created at simulated second %d reports %d", now, m.ID.Time())
				}
				if fmt.Sprint(m.ID.Ssid()) != fmt.Sprint(ssids[si]) || m.ID.Contract() != ssids[si][0] {
					c.Failf("id-fields", "ssid", "id gives back ssid %v contract %d, created with %v", m.ID.Ssid(), m.ID.Contract(), ssids[si])
				}
				if prev, ok := lastID[si]; ok && bytes.Compare(m.ID, prev) >= 0 {
					c.Failf("id-order", "later-sorts-first", "an id created later for the same channel does not sort before the earlier one (% x vs % x)", m.ID, prev)
				}
				if seen[string(m.ID)] {
					c.Failf("id-unique", "dup", "two ids are equal: % x", m.ID)
				}
				seen[string(m.ID)] = true
				lastID[si] = append([]byte(nil), m.ID...)
				err := sw.SendTo(dst, m)
				c.Logf("sendto %s #%d size=%d -> err=%v", dst, seq, len(payload), err != nil)
				if err == nil {
					want[dst] = append(want[dst], rec{append([]byte(nil), m.ID...), append([]byte(nil), m.Channel...), append([]byte(nil), payload...), m.TTL, false})
				}
			}
		case k < 16:
			d := []time.Duration{time.Nanosecond, time.Millisecond, 4 * time.Millisecond, 5 * time.Millisecond, 7 * time.Millisecond, time.Second, 5 * time.Second, 35 * time.Second}[t.Choose(8)]
			cl.AdvanceNet(d)
			c.Logf("advance %v", d)
		case k < 17:
			if t.Chance(1, 2) {
				cl.NetStep()
				break
			}
			// the process that creates the ids is restarted (same host, same pid, possibly within the same
			// second): its sequence counter starts again, ids must still differ from everything created before
			message.VerifNewProcess()
			lastID = map[int][]byte{} // order is promised per process; uniqueness across them
			c.Logf("id state of a fresh process")
			c.Probe("ids-across-a-process-restart")
		case k < 18:
			if pk := baton.Parked(); len(pk) > 0 {
				p := pk[t.Choose(len(pk))]
				c.Logf("run flush task@%s (%d parked)", p.Site, len(pk))
				baton.Release(p)
				world.Settle()
				c.Probe("flush-task-released-between-sends")
			}
		case k < 19:
			a := 1 + t.Choose(n-1)
			// a flush task parked across the end of its peer would face a select between
			// "cancelled" and "tick", which Go resolves at random: let it finish first
			baton.ReleaseAll()
			world.Settle()
			if t.Chance(1, 2) {
				cl.Latency()
				cl.Net.Block(cl.Name(0), cl.Name(a), true)
				c.Fault("partition")
				c.Logf("partition b0|b%d", a)
			} else {
				cl.Net.Block(cl.Name(0), cl.Name(a), false)
				c.Logf("heal b0|b%d", a)
			}
			world.Settle()
			if n == 2 {
				baton.SetActive(true)
			}
		default: // Frame.Split at a tape-chosen bound
			var f message.Frame
			nm := t.Range(0, 6)
			for i := 0; i < nm; i++ {
				f = append(f, *message.New(ssids[t.Choose(len(ssids))], []byte("x/"), bytes.Repeat([]byte{'p'}, []int{0, 5, 100, 1000}[t.Choose(4)])))
			}
			bound := []int{0, 1, 50, 64, 65, 130, 200, 1200, 5000}[t.Choose(9)]
			head, tail := f.Split(bound)
			sum := 0
			for _, m := range head {
				sum += len(m.Payload) + len(m.ID) + len(m.Channel) + 20
			}
			if len(head)+len(tail) != len(f) {
				c.Failf("split", "count", "Split(%d) of %d messages returned %d + %d", bound, len(f), len(head), len(tail))
			}
			for i := range f {
				var m message.Message
				if i < len(head) {
					m = head[i]
				} else {
					m = tail[i-len(head)]
				}
				if !bytes.Equal(m.ID, f[i].ID) {
					c.Failf("split", "order", "Split(%d) reordered or replaced message %d", bound, i)
				}
			}
			if len(head) > 0 && sum >= bound && bound > 0 {
				c.Failf("split", "bound", "Split(%d) returned a head of %d accounted bytes", bound, sum)
			}
			c.Probe("frame-split")
		}
		if decodeErr != nil {
			c.Failf("codec", "frame", "a frame handed to the transport does not decode: %v", decodeErr)
		}
	}
	baton.ReleaseAll()
	world.Settle()
	cl.AdvanceNet(6 * time.Millisecond)
	cl.AdvanceNet(6 * time.Millisecond)
	total := 0
	for i := 1; i < n; i++ {
		dst := cl.Name(i)
		w, g := want[dst], got[dst]
		total += len(g)
		j := 0
		for gi, x := range g {
			for j < len(w) && !bytes.Equal(w[j].id, x.id) && w[j].optional {
				j++
			}
			if j >= len(w) || !bytes.Equal(w[j].id, x.id) {
				cnt, known := 0, false
				for _, y := range g {
					if bytes.Equal(y.id, x.id) {
						cnt++
					}
				}
				for _, y := range w {
					if bytes.Equal(y.id, x.id) {
						known = true
					}
				}
				rule := "peer-order"
				switch {
				case cnt > 1:
					rule = "peer-dup"
				case !known:
					rule = "peer-dup"
				case j < len(w):
					rule = "peer-loss"
				}
				exp := "nothing more"
				if j < len(w) {
					exp = fmt.Sprintf("id % x", w[j].id[8:12])
				}
				c.Failf(rule, "mismatch", "position %d for b%d: the transport got id % x (%d times in all, handed over: %v) where %s was due", gi, i, x.id[8:12], cnt, known, exp)
			}
			if !bytes.Equal(w[j].ch, x.ch) || !bytes.Equal(w[j].pl, x.pl) || w[j].ttl != x.ttl {
				c.Failf("codec", "message", "message %d for b%d changed on its way to the transport", gi, i)
			}
			j++
		}
		for ; j < len(w); j++ {
			if !w[j].optional {
				c.Failf("peer-loss", "missing", "message %d of %d handed to peer b%d never reached the transport", j+1, len(w), i)
			}
		}
	}
	if total >= 5 {
		c.NonTrivial()
	}
	c.State(fmt.Sprintf("delivered=%d", min(total, 40)/5))
}
