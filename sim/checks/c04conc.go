package checks

import (
	"fmt"
	"io"
	"os"
	"path/filepath"
	"sync"

	"github.com/emitter-io/emitter/internal/event/crdt"
	"github.com/emitter-io/emitter/internal/verifauto"
	"github.com/emitter-io/emitter/verifsim/kernel"
	"github.com/emitter-io/emitter/verifsim/world"
)

// C04, concurrent campaign — one replicated set, several goroutines. A broker
// applies local operations (Swarm.Notify, from connection goroutines) and merges
// (one goroutine per mesh link) to the same set at the same time. Whatever the
// interleaving of their critical sections, the set must end with the point-wise
// maximum of everything applied to it: otherwise two brokers that received the
// same updates differ. The scheduling points are the ones tools/autoyield
// inserts around every mutex operation and transaction of internal/event/crdt
// in the scratch copy of the tree; the baton decides by the tape which task
// crosses its next boundary. (The campaign works on crdt.Map, one level below
// event.State: State.Merge ranges over a Go map of three subsets, whose random
// order decides the order of lock acquisitions and cannot be replayed.)

type ccOp struct {
	kind    string // add, del, merge, has
	item    int
	ts      int64
	payload *crdt.Volatile
	content crContent
}

func runCRDTConcurrent(c *kernel.Ctx) {
	defer func(old func() int64) { crdt.Now = old }(crdt.Now)
	t := c.Tape
	items := []string{"item-a", "item-b", "item-c"}[:t.Range(1, 3)]
	var set crdt.Map
	kind := ""
	switch t.Choose(4) {
	case 0:
		kind, set = "volatile", crdt.New(false, "")
	case 1, 2:
		kind, set = "durable-mem", crdt.New(true, ":memory:")
	default:
		kind = "durable-file"
		dir := filepath.Join(c.Scratch, "cc")
		os.MkdirAll(dir, 0o755)
		set = crdt.New(true, filepath.Join(dir, "set.db"))
	}
	defer func() {
		if cl, ok := set.(io.Closer); ok {
			cl.Close()
		}
	}()

	// clocks: the simulator goroutine and every task have their own "now"
	base := int64(1_700_000_000_000_000_000)
	var cmu sync.Mutex
	clocks := map[uint64]int64{}
	simNow := base
	crdt.Now = func() int64 {
		cmu.Lock()
		defer cmu.Unlock()
		if v, ok := clocks[kernel.Goid()]; ok {
			return v
		}
		return simNow
	}
	model := crContent{}
	apply := func(m crContent, k string, add, del int64) {
		e := m[k]
		if add > e.add {
			e.add = add
		}
		if del > e.del {
			e.del = del
		}
		m[k] = e
	}
	read := func(m crdt.Map) crContent {
		out := crContent{}
		m.Range(nil, true, func(k string, v crdt.Value) bool {
			out[k] = crEnt{v.AddTime(), v.DelTime()}
			return true
		})
		return out
	}
	show := func(cc crContent) string {
		s := ""
		for _, it := range items {
			if e, ok := cc[it]; ok {
				a, d := e.add, e.del
				if a != 0 {
					a -= base
				}
				if d != 0 {
					d -= base
				}
				s += fmt.Sprintf(" %s(+%d,-%d)", it, a, d)
			}
		}
		return s
	}
	verify := func(when string) {
		got := read(set)
		for _, it := range items {
			exp, had := model[it]
			g := got[it]
			if g != exp {
				c.Check("entry", kind+" "+when, "%s set after %s: %s is%s, the maximum over the operations applied to it is%s", kind, when, it, show(crContent{it: g}), show(crContent{it: exp}))
			}
			if !had {
				continue
			}
			if v := set.Get(it); v.AddTime() != exp.add || v.DelTime() != exp.del {
				c.Check("entry", kind+" "+when+" get", "%s set after %s: Get(%s) = (+%d,-%d), expected%s", kind, when, it, v.AddTime()-base, v.DelTime()-base, show(crContent{it: exp}))
			}
			if has := set.Has(it); has != exp.active() {
				c.Check("active", kind+" "+when, "%s set after %s: Has(%s) = %v but its entry%s is active=%v", kind, when, it, has, show(crContent{it: exp}), exp.active())
			}
		}
		for k := range got {
			if _, ok := model[k]; !ok {
				c.Check("entry", kind+" "+when+" phantom", "%s set after %s holds %q which was never applied", kind, when, k)
			}
		}
	}
	mkPayload := func() (*crdt.Volatile, crContent) {
		p := crdt.NewVolatile()
		for n := t.Range(1, len(items)); n > 0; n-- {
			it := items[t.Choose(len(items))]
			simNow = base + int64(t.Range(1, 24))
			if t.Chance(1, 2) {
				p.Add(it, nil)
			} else {
				p.Del(it)
			}
		}
		return p, read(p)
	}

	// sequential prefix: some history, and reads that fill the read cache of the durable backend
	c.Logf("concurrent campaign: %s set, items %v", kind, items)
	for n := t.Range(0, 4); n > 0; n-- {
		it := items[t.Choose(len(items))]
		simNow = base + int64(t.Range(1, 24))
		if t.Chance(1, 2) {
			set.Add(it, nil)
			apply(model, it, simNow, 0)
			c.Logf("prefix add %s @%d", it, simNow-base)
		} else {
			set.Del(it)
			apply(model, it, 0, simNow)
			c.Logf("prefix del %s @%d", it, simNow-base)
		}
	}
	for _, it := range items {
		if t.Chance(2, 3) {
			set.Has(it)
			c.Logf("prefix read %s", it)
		}
	}
	verify("the sequential prefix")

	// the tasks
	ntasks := t.Range(2, 3)
	tasks := make([][]ccOp, ntasks)
	touched := map[string]int{}
	for ti := range tasks {
		seen := map[string]bool{}
		for n := t.Range(1, 3); n > 0; n-- {
			op := ccOp{item: t.Choose(len(items)), ts: base + int64(t.Range(1, 24))}
			it := items[op.item]
			switch k := t.Choose(10); {
			case k < 3:
				op.kind = "add"
				apply(model, it, op.ts, 0)
				seen[it] = true
			case k < 6:
				op.kind = "del"
				apply(model, it, 0, op.ts)
				seen[it] = true
			case k < 9:
				op.kind = "merge"
				op.payload, op.content = mkPayload()
				for k, e := range op.content {
					apply(model, k, e.add, e.del)
					seen[k] = true
				}
			default:
				op.kind = "has"
			}
			tasks[ti] = append(tasks[ti], op)
			if op.kind == "merge" {
				c.Logf("task %d: merge%s", ti, show(op.content))
			} else {
				c.Logf("task %d: %s %s @%d", ti, op.kind, it, op.ts-base)
			}
		}
		for e := range seen {
			touched[e]++
		}
	}
	for _, n := range touched {
		if n >= 2 {
			c.NonTrivial()
		}
	}

	baton := kernel.NewBaton()
	baton.Auto = []string{"internal/event/crdt/"}
	baton.ParkHolding = true
	verifauto.Hook, verifauto.AcquireHook, verifauto.LockHook = baton.Hook, baton.AcquireHook, baton.LockHook
	defer func() { verifauto.Hook, verifauto.AcquireHook, verifauto.LockHook = nil, nil, nil }()
	baton.SetActive(true)
	defer baton.ReleaseAll()

	taskOf := map[uint64]int{}
	done := make(chan int, ntasks)
	for ti := range tasks {
		ti := ti
		go func() {
			me := kernel.Goid()
			cmu.Lock()
			taskOf[me] = ti
			cmu.Unlock()
			for _, op := range tasks[ti] {
				cmu.Lock()
				clocks[me] = op.ts
				cmu.Unlock()
				switch op.kind {
				case "add":
					set.Add(items[op.item], nil)
				case "del":
					set.Del(items[op.item])
				case "merge":
					set.Merge(op.payload)
				case "has":
					set.Has(items[op.item])
				}
			}
			done <- ti
		}()
		world.Settle() // parks at its first boundary (or finishes) before the next task exists
	}
	_, stuck := baton.Drive(t, world.Settle, func(p *kernel.Parked, runnable, waiting int) {
		cmu.Lock()
		ti := taskOf[p.Goid]
		cmu.Unlock()
		c.Logf("task %d crosses %s (%d of %d parked can run)", ti, p.Site, runnable, waiting)
		if waiting > runnable {
			c.Probe("task-kept-parked-because-mutex-is-held")
		}
		c.Fault("interleaving-at-mutex-boundary")
		c.Step()
	}, 600)
	if stuck {
		c.Harnessf("concurrent campaign: %d tasks parked but none can run", baton.Waiting())
	}
	world.Settle()
	for finished := 0; finished < ntasks; finished++ {
		select {
		case ti := <-done:
			c.LogUnordered("task %d finished", ti)
		default:
			c.Harnessf("concurrent campaign: a task neither finished nor parked")
		}
	}
	baton.ReleaseAll()
	world.Settle()
	simNow = base + 100
	c.State(fmt.Sprintf("concurrent %s tasks=%d", kind, ntasks))
	verify("concurrent operations")
}
