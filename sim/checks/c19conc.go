package checks

import (
	"bytes"
	"fmt"
	"sync"
	"time"

	"github.com/emitter-io/emitter/internal/message"
	"github.com/emitter-io/emitter/internal/verifauto"
	"github.com/emitter-io/emitter/internal/verifyield"
	"github.com/emitter-io/emitter/verifsim/kernel"
	"github.com/emitter-io/emitter/verifsim/world"
	"github.com/weaveworks/mesh"
)

// C19, parallel campaign — in a broker every connection goroutine creates
// message ids and hands messages to peers at the same time, while each peer's
// flush task empties its queue every 5 ms. Here 2-3 sender goroutines each
// create 1-3 messages (message.New -> NewID) and pass them to Swarm.SendTo for
// the same peer; they and the flush task are interleaved by the tape at the
// boundaries tools/autoyield put around the atomic sequence counter of NewID and
// the mutex operations of cluster.Peer, and at the hand-placed points inside
// processSendQueue. Events carry a global event number, so "created later" and
// "handed over earlier" mean: returned before the other was invoked.
//
//   - no two ids are equal; an id whose creation began after another creation for
//     the same channel had returned sorts before it;
//   - every message handed to the (active) peer reaches the transport exactly
//     once; if one SendTo returned before another began, the transport sees them
//     in that order; messages are unchanged.
func runC19Parallel(c *kernel.Ctx) {
	defer func() { mesh.Net = nil }()
	t := c.Tape
	c.SleepToEpoch()
	cl := world.NewCluster(c, 2, world.Licenses[2], func(i int, o *world.BrokerOpts) { o.StateDir = ":memory:" })
	defer cl.Close()
	type rec struct {
		id, ch, pl []byte
		ttl        uint32
	}
	var got []rec
	var decodeErr error
	cl.Net.H.OnUnicast = func(from, dst mesh.PeerName, msg []byte, err error) {
		if from != cl.Name(0) {
			return
		}
		f, derr := message.DecodeFrame(msg)
		if derr != nil {
			decodeErr = derr
			return
		}
		for _, m := range f {
			got = append(got, rec{append([]byte(nil), m.ID...), append([]byte(nil), m.Channel...), append([]byte(nil), m.Payload...), m.TTL})
		}
	}
	cl.LinkAll()
	cl.Drain(1000)
	cl.AdvanceNet(6 * time.Second)
	cl.Drain(1000)
	sw := cl.Brokers[0].Svc.VerifSwarm()
	dst := cl.Name(1)
	ssids := []message.Ssid{{7, 11, 12}, {7, 11}}
	// warm-up: the peer record and its flush task exist before anything parks
	warm := message.New(ssids[0], []byte("warm/"), []byte("warm"))
	if err := sw.SendTo(dst, warm); err != nil {
		c.Harnessf("C19 parallel: peer not reachable: %v", err)
	}
	cl.AdvanceNet(6 * time.Millisecond)
	cl.AdvanceNet(6 * time.Millisecond)
	got = nil

	baton := kernel.NewBaton()
	baton.Auto = []string{"internal/service/cluster/peer.go", "internal/message/id.go"}
	baton.OnlySites = []string{"cluster.Peer.processSendQueue:swapped", "cluster.Peer.processSendQueue:chunk"}
	verifyield.Hook = baton.Hook
	verifauto.Hook, verifauto.AcquireHook, verifauto.LockHook = baton.Hook, baton.AcquireHook, baton.LockHook
	defer func() {
		baton.ReleaseAll()
		verifyield.Hook = nil
		verifauto.Hook, verifauto.AcquireHook, verifauto.LockHook = nil, nil, nil
	}()

	type ev struct {
		task, n    int
		si         int
		id         []byte
		idCall     int64
		idRet      int64
		sendCall   int64
		sendRet    int64
		ch, pl     []byte
		ttl        uint32
		handedOver bool
	}
	var mu sync.Mutex
	var seq int64
	stamp := func() int64 { mu.Lock(); defer mu.Unlock(); seq++; return seq }
	ntasks := t.Range(2, 3)
	plan := make([][]*ev, ntasks)
	for ti := range plan {
		for n := t.Range(1, 3); n > 0; n-- {
			e := &ev{task: ti, n: len(plan[ti]), si: t.Choose(len(ssids)), ttl: uint32(t.Choose(3)) * 1000}
			size := []int{0, 1, 10, 200, 4000}[t.Choose(5)]
			e.pl = append(bytes.Repeat([]byte{byte('a' + ti)}, size), []byte(fmt.Sprintf("#%d.%d", ti, e.n))...)
			e.ch = []byte(fmt.Sprintf("ch%d/", e.si))
			plan[ti] = append(plan[ti], e)
			c.Logf("task %d: message %d on ssid %d, %d bytes", ti, e.n, e.si, len(e.pl))
		}
	}
	baton.SetActive(true)
	taskOf := map[uint64]int{}
	done := make(chan int, ntasks)
	for ti := range plan {
		ti := ti
		go func() {
			mu.Lock()
			taskOf[kernel.Goid()] = ti
			mu.Unlock()
			for _, e := range plan[ti] {
				e.idCall = stamp()
				m := message.New(ssids[e.si], e.ch, e.pl)
				e.idRet = stamp()
				m.TTL = e.ttl
				e.id = append([]byte(nil), m.ID...)
				e.sendCall = stamp()
				err := sw.SendTo(dst, m)
				e.sendRet = stamp()
				e.handedOver = err == nil
			}
			done <- ti
		}()
		world.Settle()
	}
	finished, advances := 0, 0
	mode := t.Choose(3) // 0 uniform, 1 sticky, 2 mostly-senders-then-flush
	var cur uint64
	for steps := 0; ; steps++ {
		if steps > 3000 {
			c.Harnessf("C19 parallel: no end after %d scheduling steps", steps)
		}
		world.Settle()
		for again := true; again; {
			select {
			case ti := <-done:
				finished++
				c.LogUnordered("task %d finished", ti)
			default:
				again = false
			}
		}
		pk := baton.Parked()
		if finished == ntasks && len(pk) == 0 {
			break
		}
		if len(pk) == 0 && baton.Waiting() > 0 {
			c.Harnessf("C19 parallel: %d tasks parked, none can run", baton.Waiting())
		}
		// one more option: let 5 ms pass (the flush task's ticker fires)
		tick := advances < 40 && (len(pk) == 0 || t.Chance(1, 5))
		if tick {
			advances++
			time.Sleep(5 * time.Millisecond)
			c.Stats.SimTime += 5 * time.Millisecond
			c.Logf("  5 ms pass")
			continue
		}
		if len(pk) == 0 {
			c.Harnessf("C19 parallel: senders neither finished nor parked")
		}
		var p *kernel.Parked
		if mode >= 1 {
			for _, q := range pk {
				if q.Goid == cur && !t.Chance(1, 4) {
					p = q
				}
			}
		}
		if p == nil {
			p = pk[t.Choose(len(pk))]
		}
		cur = p.Goid
		mu.Lock()
		ti, isSender := taskOf[p.Goid]
		mu.Unlock()
		who := "flush task"
		if isSender {
			who = fmt.Sprintf("task %d", ti)
		} else {
			c.Probe("flush-task-interleaved-with-parallel-senders")
		}
		c.Logf("  %s crosses %s (%d can run)", who, p.Site, len(pk))
		c.Fault("interleaving-at-mutex-boundary")
		c.Step()
		baton.Release(p)
	}
	baton.ReleaseAll()
	world.Settle()
	cl.AdvanceNet(6 * time.Millisecond)
	cl.AdvanceNet(6 * time.Millisecond)
	if decodeErr != nil {
		c.Failf("codec", "frame", "a frame handed to the transport does not decode: %v", decodeErr)
	}
	var all []*ev
	for _, p := range plan {
		all = append(all, p...)
	}
	// ---- ids
	for i, a := range all {
		if a.id == nil {
			c.Harnessf("C19 parallel: a sender did not run")
		}
		if m := message.ID(a.id); fmt.Sprint(m.Ssid()) != fmt.Sprint(ssids[a.si]) {
			c.Failf("id-fields", "ssid", "id gives back ssid %v, created with %v", m.Ssid(), ssids[a.si])
		}
		for j, b := range all {
			if i < j && bytes.Equal(a.id, b.id) {
				c.Failf("id-unique", "parallel", "two ids created by goroutines %d and %d at the same time are equal: % x", a.task, b.task, a.id)
			}
			if i != j && a.si == b.si && a.idRet < b.idCall && bytes.Compare(b.id, a.id) >= 0 {
				c.Failf("id-order", "parallel", "an id created after another one for the same channel had been returned does not sort before it (% x then % x)", a.id[4:12], b.id[4:12])
			}
		}
	}
	// ---- the transport
	pos := map[string][]int{}
	for i, g := range got {
		pos[string(g.id)] = append(pos[string(g.id)], i)
	}
	known := map[string]*ev{}
	for _, a := range all {
		known[string(a.id)] = a
		if !a.handedOver {
			continue
		}
		switch n := len(pos[string(a.id)]); {
		case n == 0:
			c.Failf("peer-loss", "parallel", "message %d of sender %d was handed to the active peer and never reached the transport (%d of %d arrived)", a.n, a.task, len(got), len(all))
		case n > 1:
			c.Failf("peer-dup", "parallel", "message %d of sender %d reached the transport %d times", a.n, a.task, n)
		}
		g := got[pos[string(a.id)][0]]
		if !bytes.Equal(g.ch, a.ch) || !bytes.Equal(g.pl, a.pl) || g.ttl != a.ttl {
			c.Failf("codec", "message", "message %d of sender %d changed on its way to the transport", a.n, a.task)
		}
	}
	for _, g := range got {
		if known[string(g.id)] == nil {
			c.Failf("peer-dup", "parallel-foreign", "the transport got a message with id % x that nobody handed over", g.id)
		}
	}
	for _, a := range all {
		for _, b := range all {
			if a != b && a.handedOver && b.handedOver && a.sendRet < b.sendCall && pos[string(a.id)][0] > pos[string(b.id)][0] {
				c.Failf("peer-order", "parallel", "SendTo of message %d.%d had returned before SendTo of %d.%d began, but the transport got them in the opposite order", a.task, a.n, b.task, b.n)
			}
		}
	}
	c.NonTrivial()
	c.State(fmt.Sprintf("parallel tasks=%d msgs=%d mode=%d", ntasks, len(all), mode))
}
