package checks

import (
	"fmt"
	"sort"
	"time"

	"github.com/emitter-io/emitter/internal/event"
	"github.com/emitter-io/emitter/verifsim/kernel"
	"github.com/emitter-io/emitter/verifsim/mqttc"
	"github.com/emitter-io/emitter/verifsim/world"
	"github.com/weaveworks/mesh"
)

// C13 part 2 — payloads queued for the same link and combined by the gossip
// transport: the payload finally sent carries every update that was in any of
// them. Real Swarms on the simulated mesh; the sender slots are transcribed
// from the library's gossip.go.

func init() { c13Swarm = runC13Coalesce }

type c13Slot struct {
	want   crContent // point-wise maximum over everything queued since the last send
	n      int
	shared bool // one of the queued payload objects also sits on another link
}

func stateContent(d mesh.GossipData) crContent {
	st, ok := d.(*event.State)
	if !ok || st == nil {
		// wrapped payloads: fall back to decoding what Encode() produces
		out := crContent{}
		for _, b := range d.Encode() {
			if dec, err := event.DecodeState(b); err == nil {
				for k, v := range readState(dec) {
					out[k] = v
				}
			}
		}
		return out
	}
	return readState(st)
}

func runC13Coalesce(c *kernel.Ctx) {
	defer func() { mesh.Net = nil }()
	t := c.Tape
	c.SleepToEpoch()
	n := t.Range(2, 4) // with 4 brokers a relayed delta is queued on two links at once
	line := n == 3 && t.Chance(1, 2)
	cl := world.NewCluster(c, n, world.Licenses[2], func(i int, o *world.BrokerOpts) {
		if t.Chance(1, 2) {
			o.StateDir = ":memory:"
		}
	})
	defer cl.Close()
	slots := map[string]*c13Slot{}
	queuedOn := map[mesh.GossipData]map[string]bool{} // object -> slots it currently sits on
	key := func(d *mesh.Dir, slot string) string { return fmt.Sprintf("%s>%s/%s", d.From, d.To, slot) }
	names := map[string]string{}
	nameOf := func(k string) string {
		if s, ok := names[k]; ok {
			return s
		}
		names[k] = fmt.Sprintf("e%d", len(names)+1)
		return names[k]
	}
	show := func(cc crContent) string {
		ks := make([]string, 0, len(cc))
		for k := range cc {
			ks = append(ks, k)
		}
		sort.Slice(ks, func(i, j int) bool { return nameOf(ks[i]) < nameOf(ks[j]) })
		s := ""
		for _, k := range ks {
			s += fmt.Sprintf(" %s(+%d,-%d)", nameOf(k), cc[k].add%1_000_000_000, cc[k].del%1_000_000_000)
		}
		return s
	}
	var pendingViolation func()
	cl.Net.H.OnQueue = func(d *mesh.Dir, slot string, data mesh.GossipData, merged bool) {
		k := key(d, slot)
		s := slots[k]
		if s == nil {
			s = &c13Slot{want: crContent{}}
			slots[k] = s
		}
		for ek, e := range stateContent(data) {
			cur := s.want[ek]
			if e.add > cur.add {
				cur.add = e.add
			}
			if e.del > cur.del {
				cur.del = e.del
			}
			s.want[ek] = cur
		}
		s.n++
		if queuedOn[data] == nil {
			queuedOn[data] = map[string]bool{}
		}
		queuedOn[data][k] = true
		if len(queuedOn[data]) > 1 {
			for q := range queuedOn[data] {
				if slots[q] != nil {
					slots[q].shared = true
				}
			}
			c.Probe("same-object-on-several-links")
		}
		if merged {
			c.Probe("coalesced-into-pending")
		}
	}
	check := func(d *mesh.Dir, slot string, got crContent, sentNothing bool) {
		k := key(d, slot)
		s := slots[k]
		delete(slots, k)
		for obj, on := range queuedOn {
			delete(on, k)
			if len(on) == 0 {
				delete(queuedOn, obj)
			}
		}
		if s == nil {
			return
		}
		if s.n >= 2 {
			c.NonTrivial()
		}
		c.State(fmt.Sprintf("queued=%d shared=%v", s.n, s.shared))
		for ek, w := range s.want {
			g := got[ek]
			if g.add < w.add || g.del < w.del {
				rule, disc := "coalesce-loss", fmt.Sprintf("queued=%d", min(s.n, 3))
				if s.n == 1 || s.shared {
					rule, disc = "coalesce-alias", fmt.Sprintf("queued=%d shared=%v", min(s.n, 3), s.shared)
				}
				want, gotS := show(s.want), show(got)
				n := s.n
				pendingViolation = func() {
					c.Check(rule, disc, "link %s slot %s: %d payload(s) were queued carrying%s but the payload sent carries%s (nothing sent: %v)", fmt.Sprintf("%s->%s", d.From, d.To), slot, n, want, gotS, sentNothing)
				}
				return
			}
		}
	}
	cl.Net.H.OnSend = func(d *mesh.Dir, slot string, m mesh.WireMsg, co int) {
		dec, err := event.DecodeState(m.Payload)
		if err != nil {
			pendingViolation = func() { c.Failf("coalesce-loss", "undecodable", "emitted payload does not decode: %v", err) }
			return
		}
		check(d, slot, readState(dec), false)
	}
	cl.Net.H.OnDrop = func(d *mesh.Dir, slot string) { check(d, slot, crContent{}, true) }

	// topology
	if line {
		cl.Net.Block(cl.Name(0), cl.Name(2), true)
		cl.Net.Connect(cl.Name(0), cl.Name(1))
		cl.Net.Connect(cl.Name(1), cl.Name(2))
	} else {
		cl.LinkAll()
	}
	c.Logf("brokers=%d line=%v", n, line)
	cl.Drain(1000)
	cl.AdvanceNet(6 * time.Second) // emitter's update() marks the peers active
	cl.Drain(1000)
	if pendingViolation != nil {
		pendingViolation()
	}

	// one client per broker
	lic := cl.Lic
	var clients []*mqttc.Client
	var keyStr string
	for i, b := range cl.Brokers {
		cli := b.Attach(fmt.Sprintf("c%d", i))
		world.ConnectClient(c, cli, fmt.Sprintf("c%d", i), "", nil)
		if i == 0 {
			keyStr = world.Keygen(c, cli, lic.Master, "#/", "rw", 0)
		}
		clients = append(clients, cli)
	}
	cl.Drain(1000)
	filters := []string{"a/", "b/", "a/b/", "b/a/"}
	steps := t.Range(10, 80)
	for s := 0; s < steps && !t.Exhausted(); s++ {
		c.Step()
		switch k := t.Choose(10); {
		case k < 5: // a subscribe or unsubscribe -> Notify -> broadcast of a one-operation state
			i := t.Choose(n)
			f := filters[t.Choose(len(filters))]
			if !t.Chance(1, 8) {
				world.Advance(c, time.Duration(t.Range(1, 2000))*time.Microsecond)
			} else {
				c.Fault("clock-tie")
			}
			if t.Chance(3, 5) {
				clients[i].Send(clients[i].Subscribe(keyStr + "/" + f))
				c.Logf("c%d subscribe %s", i, f)
			} else {
				clients[i].Send(clients[i].Unsubscribe(keyStr + "/" + f))
				c.Logf("c%d unsubscribe %s", i, f)
			}
			world.Settle()
			clients[i].Recv()
		case k < 8:
			cl.NetStep()
		case k < 9:
			cl.AdvanceNet(5 * time.Millisecond)
		default:
			cl.AdvanceNet(31 * time.Second) // periodic full-state gossip joins the queues
			c.Logf("advance 31s")
		}
		if pendingViolation != nil {
			pendingViolation()
			pendingViolation = nil
		}
		if len(cl.Panics) > 0 {
			c.Check("coalesce-loss", "panic", "the gossip send queue panicked (the real library has no recover here: the process exits): %s", cl.Panics[0])
			cl.Panics = nil
		}
	}
	cl.Drain(2000)
	if pendingViolation != nil {
		pendingViolation()
	}
}
