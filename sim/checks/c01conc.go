package checks

import (
	"fmt"
	"sort"
	"strings"
	"sync"
	"time"

	"github.com/anishathalye/porcupine"
	"github.com/emitter-io/emitter/internal/message"
	"github.com/emitter-io/emitter/internal/verifauto"
	"github.com/emitter-io/emitter/verifsim/kernel"
	"github.com/emitter-io/emitter/verifsim/model"
	"github.com/emitter-io/emitter/verifsim/world"
)

// C01, concurrent campaign — the trie is shared by every connection goroutine
// and every mesh link goroutine of a broker: publishes look it up while
// subscriptions come and go. "After any history of subscriptions and
// unsubscriptions a message is handed to exactly the matching subscribers" must
// then hold for SOME order of the overlapping operations that respects what had
// finished before what began: the recorded history of Subscribe / Unsubscribe /
// Lookup / Count calls of 2-3 goroutines must be linearizable against the set
// model (checked with porcupine). The goroutines are interleaved by the tape at
// the boundaries tools/autoyield puts around the mutex operations of
// internal/message; events are stamped with a global event counter (not with
// time), so two operations are concurrent exactly when their [invoke, return]
// intervals overlap.

type c01Pair struct {
	f   c01Filter
	sub string
}

type c01In struct {
	kind     string // sub, unsub, lookup, count, dump
	f        c01Filter
	sub      string
	contract int
	ch       []string
}

type c01Out struct {
	ids   []string // lookup: sorted ids
	n     int      // count
	pairs string   // dump: sorted "ssid|id" list
	nodes int
}

func c01StateKey(pairs map[string]c01Pair) string {
	ks := make([]string, 0, len(pairs))
	for k := range pairs {
		ks = append(ks, k)
	}
	sort.Strings(ks)
	return strings.Join(ks, ";")
}

// c01LookupOK: got = direct matching subscribers plus exactly one member of each matching share group.
func c01LookupOK(mode string, pairs map[string]c01Pair, contract int, ch []string, got []string) bool {
	direct := map[string]bool{}
	groups := map[string]map[string]bool{}
	for _, p := range pairs {
		if p.f.contract != contract || !model.Match(mode, p.f.levels, ch) {
			continue
		}
		if p.f.group == "" {
			direct[p.sub] = true
		} else {
			if groups[p.f.group] == nil {
				groups[p.f.group] = map[string]bool{}
			}
			groups[p.f.group][p.sub] = true
		}
	}
	gotSet := map[string]bool{}
	for _, g := range got {
		if gotSet[g] {
			return false
		}
		gotSet[g] = true
	}
	for d := range direct {
		if !gotSet[d] {
			return false
		}
	}
	gnames := make([]string, 0, len(groups))
	for g := range groups {
		gnames = append(gnames, g)
	}
	sort.Strings(gnames)
	var try func(i int, acc map[string]bool) bool
	try = func(i int, acc map[string]bool) bool {
		if i == len(gnames) {
			if len(acc) != len(gotSet) {
				return false
			}
			for k := range acc {
				if !gotSet[k] {
					return false
				}
			}
			return true
		}
		for m := range groups[gnames[i]] {
			had := acc[m]
			acc[m] = true
			if try(i+1, acc) {
				return true
			}
			if !had {
				delete(acc, m)
			}
		}
		return false
	}
	acc := map[string]bool{}
	for d := range direct {
		acc[d] = true
	}
	return try(0, acc)
}

func runC01Concurrent(c *kernel.Ctx) {
	c.Bubble(func() { runC01ConcurrentBody(c) })
}

func runC01ConcurrentBody(c *kernel.Ctx) {
	t := c.Tape
	mode := ""
	trie := message.NewTrie()
	if t.Chance(1, 2) {
		mode = "mqtt"
		trie = message.NewTrieMQTT()
	}
	subs := map[string]*c01Sub{"s1": {"s1"}, "s2": {"s2"}, "s3": {"s3"}}
	subNames := []string{"s1", "s2", "s3"}
	// a small pool of filters on one branch, so that the tasks collide: create / prune the same nodes
	pool := []c01Filter{
		{levels: []string{"a"}}, {levels: []string{"a", "b"}}, {levels: []string{"a", "b", "c"}}, {levels: []string{"a", "+"}},
		{levels: []string{"a", "b"}, group: "g1"}, {levels: []string{"a", "+", "c"}},
	}
	if mode == "mqtt" {
		pool = append(pool, c01Filter{levels: []string{"a", "#"}})
	}
	chans := [][]string{{"a"}, {"a", "b"}, {"a", "b", "c"}, {"a", "c"}}
	c.Logf("concurrent campaign: mode=%q", mode)

	initial := map[string]c01Pair{}
	for n := t.Range(0, 4); n > 0; n-- {
		f, s := pool[t.Choose(len(pool))], subNames[t.Choose(3)]
		trie.Subscribe(f.ssid(), subs[s])
		initial[f.String()+"|"+s] = c01Pair{f, s}
		c.Logf("prefix: sub %s %s", f, s)
	}

	ntasks := t.Range(2, 3)
	tasks := make([][]c01In, ntasks)
	for ti := range tasks {
		for n := t.Range(1, 3); n > 0; n-- {
			var in c01In
			switch k := t.Choose(10); {
			case k < 3:
				in = c01In{kind: "sub", f: pool[t.Choose(len(pool))], sub: subNames[t.Choose(3)]}
			case k < 6:
				in = c01In{kind: "unsub", f: pool[t.Choose(len(pool))], sub: subNames[t.Choose(3)]}
				if len(initial) > 0 && t.Chance(2, 3) {
					ks := strings.Split(c01StateKey(initial), ";")
					p := initial[ks[t.Choose(len(ks))]]
					in.f, in.sub = p.f, p.sub
				}
			case k < 9:
				in = c01In{kind: "lookup", ch: chans[t.Choose(len(chans))]}
			default:
				in = c01In{kind: "count"}
			}
			tasks[ti] = append(tasks[ti], in)
			switch in.kind {
			case "lookup":
				c.Logf("task %d: lookup %s", ti, model.Join(in.ch))
			case "count":
				c.Logf("task %d: count", ti)
			default:
				c.Logf("task %d: %s %s %s", ti, in.kind, in.f, in.sub)
			}
		}
	}
	c.NonTrivial()

	baton := kernel.NewBaton()
	baton.Auto = []string{"internal/message/"}
	verifauto.Hook, verifauto.AcquireHook, verifauto.LockHook = baton.Hook, baton.AcquireHook, baton.LockHook
	defer func() { verifauto.Hook, verifauto.AcquireHook, verifauto.LockHook = nil, nil, nil }()
	baton.SetActive(true)
	defer baton.ReleaseAll()

	var mu sync.Mutex
	var seq int64
	var ops []porcupine.Operation
	stamp := func() int64 { mu.Lock(); defer mu.Unlock(); seq++; return seq }
	exec := func(in c01In) c01Out {
		switch in.kind {
		case "sub":
			trie.Subscribe(in.f.ssid(), subs[in.sub])
		case "unsub":
			trie.Unsubscribe(in.f.ssid(), subs[in.sub])
		case "lookup":
			var ids []string
			for _, s := range trie.Lookup(c01Filter{contract: in.contract, levels: in.ch}.ssid(), nil) {
				ids = append(ids, s.ID())
			}
			sort.Strings(ids)
			return c01Out{ids: ids}
		case "count":
			return c01Out{n: trie.Count()}
		}
		return c01Out{}
	}
	taskOf := map[uint64]int{}
	done := make(chan int, ntasks)
	for ti := range tasks {
		ti := ti
		go func() {
			mu.Lock()
			taskOf[kernel.Goid()] = ti
			mu.Unlock()
			for _, in := range tasks[ti] {
				call := stamp()
				out := exec(in)
				ret := stamp()
				mu.Lock()
				ops = append(ops, porcupine.Operation{ClientId: ti, Input: in, Call: call, Output: out, Return: ret})
				mu.Unlock()
			}
			done <- ti
		}()
		world.Settle()
	}
	_, stuck := baton.Drive(t, world.Settle, func(p *kernel.Parked, runnable, waiting int) {
		mu.Lock()
		ti := taskOf[p.Goid]
		mu.Unlock()
		c.Logf("task %d crosses %s (%d of %d parked can run)", ti, p.Site, runnable, waiting)
		c.Fault("interleaving-at-mutex-boundary")
		c.Step()
	}, 600)
	if stuck {
		c.Harnessf("C01 concurrent: %d tasks parked but none can run", baton.Waiting())
	}
	world.Settle()
	for finished := 0; finished < ntasks; finished++ {
		select {
		case ti := <-done:
			c.LogUnordered("task %d finished", ti)
		default:
			c.Harnessf("C01 concurrent: a task neither finished nor parked")
		}
	}
	baton.ReleaseAll()
	world.Settle()
	// final observations, after everything has returned: every channel, the count, the stored pairs
	final := func(in c01In) {
		call := stamp()
		var out c01Out
		if in.kind == "dump" {
			nodes, entries := trie.VerifDump()
			var ps []string
			for _, e := range entries {
				ps = append(ps, fmt.Sprintf("%v|%s", e.Ssid, e.ID))
			}
			sort.Strings(ps)
			out = c01Out{pairs: strings.Join(ps, ";"), nodes: nodes, n: len(entries)}
		} else {
			out = exec(in)
		}
		ops = append(ops, porcupine.Operation{ClientId: ntasks, Input: in, Call: call, Output: out, Return: stamp()})
	}
	for _, ch := range chans {
		final(c01In{kind: "lookup", ch: ch})
	}
	final(c01In{kind: "count"})
	final(c01In{kind: "dump"})

	overlap := 0
	for i := range ops {
		for j := range ops {
			if i < j && ops[i].ClientId != ops[j].ClientId && ops[i].Call < ops[j].Return && ops[j].Call < ops[i].Return {
				overlap++
			}
		}
	}
	if overlap > 0 {
		c.Probe("overlapping-trie-operations")
	}

	type st struct {
		key   string
		pairs map[string]c01Pair
	}
	m := porcupine.Model{
		Init: func() interface{} { return st{c01StateKey(initial), initial} },
		Step: func(state, input, output interface{}) (bool, interface{}) {
			s, in, out := state.(st), input.(c01In), output.(c01Out)
			switch in.kind {
			case "sub", "unsub":
				k := in.f.String() + "|" + in.sub
				_, has := s.pairs[k]
				if has == (in.kind == "sub") {
					return true, s
				}
				np := make(map[string]c01Pair, len(s.pairs)+1)
				for kk, v := range s.pairs {
					np[kk] = v
				}
				if in.kind == "sub" {
					np[k] = c01Pair{in.f, in.sub}
				} else {
					delete(np, k)
				}
				return true, st{c01StateKey(np), np}
			case "lookup":
				return c01LookupOK(mode, s.pairs, in.contract, in.ch, out.ids), s
			case "count":
				return out.n == len(s.pairs), s
			case "dump":
				var ps []string
				prefixes := map[string]bool{}
				for _, p := range s.pairs {
					ss := p.f.ssid()
					ps = append(ps, fmt.Sprintf("%v|%s", ss, p.sub))
					for i := 1; i <= len(ss); i++ {
						prefixes[fmt.Sprint(ss[:i])] = true
					}
				}
				sort.Strings(ps)
				return strings.Join(ps, ";") == out.pairs && out.nodes == 1+len(prefixes), s
			}
			return false, s
		},
		Equal: func(a, b interface{}) bool { return a.(st).key == b.(st).key },
	}
	res := porcupine.CheckOperationsTimeout(m, ops, 20*time.Second)
	c.State(fmt.Sprintf("concurrent tasks=%d ops=%d overlap=%d", ntasks, len(ops), min(overlap, 6)))
	switch res {
	case porcupine.Illegal:
		var hs []string
		sort.Slice(ops, func(i, j int) bool { return ops[i].Call < ops[j].Call })
		for _, o := range ops {
			in, out := o.Input.(c01In), o.Output.(c01Out)
			d := in.kind
			switch in.kind {
			case "lookup":
				d += " " + model.Join(in.ch) + fmt.Sprintf(" -> %v", out.ids)
			case "count":
				d += fmt.Sprintf(" -> %d", out.n)
			case "dump":
				d += fmt.Sprintf(" -> %d nodes, pairs %s", out.nodes, out.pairs)
			default:
				d += " " + in.f.String() + " " + in.sub
			}
			hs = append(hs, fmt.Sprintf("[%d..%d] t%d %s", o.Call, o.Return, o.ClientId, d))
		}
		c.Check("lookup", "not-linearizable", "the history of overlapping trie operations has no sequential explanation (initial pairs: %s): %s", c01StateKey(initial), strings.Join(hs, "; "))
	case porcupine.Unknown:
		c.Probe("linearizability-check-timed-out")
	}
}
