package checks

import (
	"fmt"
	"strconv"
	"strings"
	"time"

	"github.com/eclipse/paho.mqtt.golang/packets"
	"github.com/emitter-io/emitter/verifsim/kernel"
	"github.com/emitter-io/emitter/verifsim/mqttc"
	"github.com/emitter-io/emitter/verifsim/simnet"
	"github.com/emitter-io/emitter/verifsim/world"
)

// C10, wide campaign — "with any number of clients": the other campaigns give
// every channel tree one subscriber (the order in which a publish visits several
// subscribers is Go map order and cannot be owned by the tape) and interleave a
// few connections at every critical section. This one goes for width instead:
// 2-14 subscribers (plain and WebSocket) on ONE channel behind the real listener
// stack, 1-3 publishers that each write bursts of 2-5 PUBLISH packets in a single
// socket write (the broker serves them back to back), tape-chosen flush rate and
// clock advances between bursts, no parking. Whatever order the fan-out takes,
// each subscriber's stream must parse and carry every publisher's messages
// 1,2,3,... once and in order.
func runC10Wide(c *kernel.Ctx) {
	t := c.Tape
	c.SleepToEpoch()
	rate := []int{1, 2, 60, 1000}[t.Choose(4)]
	lic := world.Licenses[2]
	b := world.StartBroker(c, world.BrokerOpts{Lic: lic, Cluster: t.Chance(1, 2), NodeName: "00:00:00:00:00:01", Advertise: "10.0.0.1:4000", StateDir: ":memory:", FlushRate: rate})
	defer b.Close()
	root := simnet.NewListener()
	b.Svc.VerifServe(root)
	defer root.Close()
	connect := func(name string, ws bool) *mqttc.Client {
		cl := c10Dial(c, root, name, ws)
		cl.Send(mqttc.Connect(name, "", nil))
		world.Settle()
		world.Advance(c, 1100*time.Millisecond)
		if pk, err := cl.Recv(); err != nil || len(pk) == 0 {
			c.Harnessf("connect %s: %v (%d packets)", name, err, len(pk))
		}
		return cl
	}
	admin := connect("admin", false)
	key := world.Keygen(c, admin, lic.Master, "#/", "rw", 0)
	nsub := []int{2, 5, 8, 9, 10, 12, 14}[t.Choose(7)]
	npub := t.Range(1, 3)
	var subs, pubs []*mqttc.Client
	for i := 0; i < nsub; i++ {
		s := connect(fmt.Sprintf("s%d", i), t.Chance(1, 4))
		s.Send(s.Subscribe(key + "/w/"))
		world.Settle()
		subs = append(subs, s)
	}
	for i := 0; i < npub; i++ {
		pubs = append(pubs, connect(fmt.Sprintf("p%d", i), false))
	}
	world.Advance(c, 1100*time.Millisecond)
	for _, s := range subs {
		s.Recv()
	}
	c.Logf("wide campaign: %d subscribers on w/, %d publishers, flush rate %d", nsub, npub, rate)
	next := make([]int, npub) // last sequence number sent per publisher
	rounds := t.Range(2, 8)
	for r := 0; r < rounds; r++ {
		c.Step()
		pi := t.Choose(npub)
		burst := t.Range(2, 5)
		var buf []byte
		for k := 0; k < burst; k++ {
			next[pi]++
			buf = append(buf, mqttc.Encode(pubs[pi].Publish(key+"/w/", []byte(fmt.Sprintf("p%d:%d", pi, next[pi])), false, false))...)
		}
		pubs[pi].Write(buf)
		c.Logf("p%d writes %d publishes in one burst (up to %d)", pi, burst, next[pi])
		world.Settle()
		if t.Chance(1, 3) {
			d := []time.Duration{time.Millisecond, 20 * time.Millisecond, time.Second}[t.Choose(3)]
			world.Advance(c, d)
		}
	}
	world.Settle()
	world.Advance(c, 1100*time.Millisecond)
	world.Advance(c, 1100*time.Millisecond)
	for _, p := range pubs {
		p.Recv()
	}
	for si, s := range subs {
		pk, err := s.Recv()
		if err != nil {
			c.Check("framing", "wide", "the stream of subscriber %d (of %d) is not a sequence of well-formed packets: %v", si, nsub, err)
		}
		seen := make([]int, npub)
		for _, x := range pk {
			p, ok := x.(*packets.PublishPacket)
			if !ok || p.TopicName != "w/" {
				continue
			}
			f := strings.SplitN(string(p.Payload), ":", 2)
			if len(f) != 2 || !strings.HasPrefix(f[0], "p") {
				c.Check("framing", "wide-payload", "subscriber %d received a payload nobody sent: %q", si, p.Payload)
				continue
			}
			pi, _ := strconv.Atoi(f[0][1:])
			n, _ := strconv.Atoi(f[1])
			if pi < 0 || pi >= npub {
				c.Check("framing", "wide-payload", "subscriber %d received a payload nobody sent: %q", si, p.Payload)
				continue
			}
			switch {
			case n == seen[pi]+1:
				seen[pi] = n
			case n <= seen[pi]:
				c.Check("order", fmt.Sprintf("wide subs>8=%v", nsub > 8), "subscriber %d (of %d on the channel) got message %d of publisher %d after message %d", si, nsub, n, pi, seen[pi])
			default:
				c.Check("order", fmt.Sprintf("wide subs>8=%v", nsub > 8), "subscriber %d (of %d on the channel) got message %d of publisher %d right after message %d", si, nsub, n, pi, seen[pi])
				seen[pi] = n
			}
		}
		for pi := range seen {
			if seen[pi] != next[pi] {
				c.Check("loss", "wide", "subscriber %d (of %d on the channel) received publisher %d's messages up to %d, %d were published", si, nsub, pi, seen[pi], next[pi])
			}
		}
	}
	c.NonTrivial()
	c.State(fmt.Sprintf("wide subs=%d pubs=%d rate=%d", nsub, npub, rate))
}

// runC10Stall — a slow consumer: one of two subscribers stops reading (its socket buffer is
// tiny) while a publisher sends a burst; the broker's writes to it stall for 6-40 simulated
// seconds, then it reads again. Nothing may be cut short because time passed: afterwards both
// subscribers' streams parse and carry the publisher's messages once and in order.
// (Clients are attached below the listener stack: a write that blocks there holds no mutex
// that another goroutine could want, so the bubble stays quiescent while it blocks.)
func runC10Stall(c *kernel.Ctx) {
	t := c.Tape
	c.SleepToEpoch()
	lic := world.Licenses[2]
	b := world.StartBroker(c, world.BrokerOpts{Lic: lic, Cluster: t.Chance(1, 2), NodeName: "00:00:00:00:00:01", Advertise: "10.0.0.1:4000", StateDir: ":memory:"})
	defer b.Close()
	mk := func(name string) *mqttc.Client {
		cl := b.Attach(name)
		world.ConnectClient(c, cl, name, "", nil)
		return cl
	}
	admin := mk("admin")
	key := world.Keygen(c, admin, lic.Master, "#/", "rw", 0)
	slow, ok, pub := mk("slow"), mk("ok"), mk("pub")
	for _, s := range []*mqttc.Client{slow, ok} {
		s.Send(s.Subscribe(key + "/w/"))
		world.Settle()
		s.Recv()
	}
	limit := t.Range(64, 400)
	slow.Conn.SetPeerWriteLimit(limit)
	n := t.Range(3, 12)
	var buf []byte
	for k := 1; k <= n; k++ {
		pl := fmt.Sprintf("p0:%d:", k) + strings.Repeat("x", []int{10, 150, 900}[t.Choose(3)])
		buf = append(buf, mqttc.Encode(pub.Publish(key+"/w/", []byte(pl), false, false))...)
	}
	pub.Write(buf)
	world.Settle()
	stall := time.Duration(t.Range(6, 40)) * time.Second
	for el := time.Duration(0); el < stall; el += 2 * time.Second {
		time.Sleep(2 * time.Second)
		world.Settle()
		for _, x := range []*mqttc.Client{admin, ok} {
			x.Send(mqttc.Ping())
		}
		world.Settle()
	}
	c.Stats.SimTime += stall
	c.Fault("slow-consumer")
	c.Logf("stall campaign: %d publishes, the slow subscriber (socket buffer %d bytes) does not read for %v", n, limit, stall)
	check := func(name string, pk []packets.ControlPacket, err error) {
		if err != nil {
			c.Check("framing", "stall", "the stream of subscriber %s is not a sequence of well-formed packets after a stall of %v: %v", name, stall, err)
		}
		seen := 0
		for _, x := range pk {
			p, isPub := x.(*packets.PublishPacket)
			if !isPub || p.TopicName != "w/" {
				continue
			}
			f := strings.SplitN(string(p.Payload), ":", 3)
			k, _ := strconv.Atoi(f[1])
			if len(f) < 3 || f[0] != "p0" || k != seen+1 {
				c.Check("order", "stall", "subscriber %s got %.20q after message %d", name, p.Payload, seen)
			}
			seen = k
		}
		if seen != n {
			c.Check("loss", "stall", "subscriber %s received the publisher's messages up to %d, %d were published (it had stopped reading for %v)", name, seen, n, stall)
		}
	}
	// the slow subscriber reads again, until nothing more arrives
	var all []packets.ControlPacket
	var ferr error
	for round := 0; round < 4000; round++ {
		arrived := slow.Conn.Pending()
		pk, err := slow.Recv()
		if err != nil {
			ferr = err
		}
		all = append(all, pk...)
		world.Settle()
		if arrived == 0 && round > 2 {
			break // nothing is on its way any more (a packet may arrive in many pieces of the tiny buffer's size)
		}
	}
	check("slow", all, ferr)
	okp, err := ok.Recv()
	check("ok", okp, err)
	c.NonTrivial()
	c.State(fmt.Sprintf("stall n=%d limit=%d", n, limit/100))
}
