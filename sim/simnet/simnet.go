// Package simnet is the simulated socket: an in-memory duplex byte queue with
// kernel-like buffered writes, reads that block on a condition variable
// (durably blocked for synctest), deadlines on the bubble's fake clock, and
// cut/abort at any byte. The client end is driven only by the simulator.
package simnet

import (
	"errors"
	"io"
	"net"
	"os"
	"sync"
	"time"
)

type pipeHalf struct {
	mu       sync.Mutex
	cond     *sync.Cond
	buf      []byte
	eof      bool  // writer closed cleanly: reader sees EOF after the buffer
	err      error // injected error: reader sees it at once
	rclosed  bool  // reader side closed: writes fail
	deadline time.Time
	timer    *time.Timer
	limit    int  // >0: bounded buffer, Write blocks while full (slow consumer)
	wbroken  bool // writes into this half fail although the reader has not closed (peer vanished: RST seen by writers first)
	total    int64
}

func newHalf() *pipeHalf {
	h := &pipeHalf{}
	h.cond = sync.NewCond(&h.mu)
	return h
}

// Addr is a fake address.
type Addr struct{ S string }

func (a Addr) Network() string { return "sim" }
func (a Addr) String() string  { return a.S }

// Conn is one end of a simulated connection.
type Conn struct {
	rd, wr        *pipeHalf
	local, remote net.Addr
	once          sync.Once
	wdeadline     time.Time
	wtimer        *time.Timer
}

// Pair returns the two ends (server, client) of a fresh connection.
func Pair(name string) (server, client *Conn) {
	a, b := newHalf(), newHalf()
	server = &Conn{rd: a, wr: b, local: Addr{"broker"}, remote: Addr{name}}
	client = &Conn{rd: b, wr: a, local: Addr{name}, remote: Addr{"broker"}}
	return
}

var errClosed = errors.New("simnet: use of closed connection")

func (c *Conn) Read(p []byte) (int, error) {
	h := c.rd
	h.mu.Lock()
	defer h.mu.Unlock()
	for {
		if h.rclosed {
			return 0, errClosed
		}
		if h.err != nil {
			return 0, h.err
		}
		if len(h.buf) > 0 {
			n := copy(p, h.buf)
			h.buf = h.buf[n:]
			if h.limit > 0 {
				h.cond.Broadcast()
			}
			return n, nil
		}
		if h.eof {
			return 0, io.EOF
		}
		if !h.deadline.IsZero() && !time.Now().Before(h.deadline) {
			return 0, os.ErrDeadlineExceeded
		}
		h.cond.Wait()
	}
}

func (c *Conn) Write(p []byte) (int, error) {
	h := c.wr
	h.mu.Lock()
	defer h.mu.Unlock()
	written := 0
	for {
		if h.eof || h.rclosed || h.wbroken {
			return written, errClosed
		}
		if h.limit > 0 {
			// a bounded socket buffer: what fits goes out, the rest waits for the reader - until the write
			// deadline, if there is one, and then the call reports how much of p it had got rid of (a short write)
			room := h.limit - len(h.buf)
			if room <= 0 {
				if !c.wdeadline.IsZero() && !time.Now().Before(c.wdeadline) {
					return written, os.ErrDeadlineExceeded
				}
				h.cond.Wait()
				continue
			}
			if room < len(p)-written {
				h.buf = append(h.buf, p[written:written+room]...)
				h.total += int64(room)
				written += room
				h.cond.Broadcast()
				continue
			}
		}
		break
	}
	h.buf = append(h.buf, p[written:]...) // copy: callers reuse pooled buffers
	h.total += int64(len(p) - written)
	h.cond.Broadcast()
	return len(p), nil
}

// Close closes both directions: the peer reads EOF, its writes fail.
func (c *Conn) Close() error {
	c.once.Do(func() {
		c.wr.mu.Lock()
		c.wr.eof = true
		c.wr.cond.Broadcast()
		c.wr.mu.Unlock()
		c.rd.mu.Lock()
		c.rd.rclosed = true
		if c.rd.timer != nil {
			c.rd.timer.Stop()
		}
		c.rd.cond.Broadcast()
		c.rd.mu.Unlock()
	})
	return nil
}

// Abort makes the peer's next read fail with err (connection reset).
func (c *Conn) Abort(err error) {
	c.wr.mu.Lock()
	c.wr.err = err
	c.wr.cond.Broadcast()
	c.wr.mu.Unlock()
	c.Close()
}

func (c *Conn) LocalAddr() net.Addr  { return c.local }
func (c *Conn) RemoteAddr() net.Addr { return c.remote }

func (c *Conn) SetDeadline(t time.Time) error {
	c.SetReadDeadline(t)
	c.SetWriteDeadline(t)
	return nil
}

func (c *Conn) SetReadDeadline(t time.Time) error {
	h := c.rd
	h.mu.Lock()
	defer h.mu.Unlock()
	h.deadline = t
	if h.timer != nil {
		h.timer.Stop()
		h.timer = nil
	}
	if !t.IsZero() && !h.rclosed {
		d := time.Until(t)
		if d < 0 {
			d = 0
		}
		h.timer = time.AfterFunc(d, func() {
			h.mu.Lock()
			h.cond.Broadcast()
			h.mu.Unlock()
		})
	}
	return nil
}

func (c *Conn) SetWriteDeadline(t time.Time) error {
	h := c.wr
	h.mu.Lock()
	defer h.mu.Unlock()
	c.wdeadline = t
	if c.wtimer != nil {
		c.wtimer.Stop()
		c.wtimer = nil
	}
	if !t.IsZero() && h.limit > 0 { // only a bounded buffer can make a write wait
		d := time.Until(t)
		if d < 0 {
			d = 0
		}
		c.wtimer = time.AfterFunc(d, func() {
			h.mu.Lock()
			h.cond.Broadcast()
			h.mu.Unlock()
		})
	}
	return nil
}

// --- simulator-side helpers (client end) -------------------------------------

// Drain returns everything the peer has written so far, without blocking.
func (c *Conn) Drain() []byte {
	h := c.rd
	h.mu.Lock()
	defer h.mu.Unlock()
	b := h.buf
	h.buf = nil
	if h.limit > 0 {
		h.cond.Broadcast()
	}
	return b
}

// PeerClosed reports whether the peer closed its write side (we would read EOF).
func (c *Conn) PeerClosed() bool {
	h := c.rd
	h.mu.Lock()
	defer h.mu.Unlock()
	return h.eof || h.err != nil
}

// Unread is the number of bytes written to the peer that it has not read yet.
func (c *Conn) Unread() int {
	h := c.wr
	h.mu.Lock()
	defer h.mu.Unlock()
	return len(h.buf)
}

// Pending is the number of bytes the peer has written that this end has not drained yet.
func (c *Conn) Pending() int {
	h := c.rd
	h.mu.Lock()
	defer h.mu.Unlock()
	return len(h.buf)
}

// BreakPeerWrites makes every later write of the peer fail while its reads
// keep blocking: the order in which a dying TCP connection is noticed by the
// writing and the reading goroutine is not defined.
func (c *Conn) BreakPeerWrites() {
	c.rd.mu.Lock()
	c.rd.wbroken = true
	c.rd.cond.Broadcast()
	c.rd.mu.Unlock()
}

// SetPeerWriteLimit bounds the buffer of bytes travelling towards this end
// (the peer's writes block when this end does not drain).
func (c *Conn) SetPeerWriteLimit(n int) {
	c.rd.mu.Lock()
	c.rd.limit = n
	c.rd.mu.Unlock()
}

// --- listener ---------------------------------------------------------------

// Listener hands simulated connections to a server.
type Listener struct {
	mu     sync.Mutex
	cond   *sync.Cond
	q      []net.Conn
	closed bool
}

// NewListener returns a simulated listener.
func NewListener() *Listener {
	l := &Listener{}
	l.cond = sync.NewCond(&l.mu)
	return l
}

// Dial creates a connection, queues the server end for Accept and returns the client end.
func (l *Listener) Dial(name string) *Conn {
	s, c := Pair(name)
	l.mu.Lock()
	l.q = append(l.q, s)
	l.cond.Broadcast()
	l.mu.Unlock()
	return c
}

func (l *Listener) Accept() (net.Conn, error) {
	l.mu.Lock()
	defer l.mu.Unlock()
	for len(l.q) == 0 && !l.closed {
		l.cond.Wait()
	}
	if l.closed {
		return nil, errors.New("simnet: listener closed")
	}
	c := l.q[0]
	l.q = l.q[1:]
	return c, nil
}

func (l *Listener) Close() error {
	l.mu.Lock()
	l.closed = true
	l.cond.Broadcast()
	l.mu.Unlock()
	return nil
}

func (l *Listener) Addr() net.Addr { return Addr{"listener"} }
