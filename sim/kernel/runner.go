package kernel

import (
	crand "crypto/rand"
	"fmt"
	"github.com/emitter-io/emitter/internal/message"
	"github.com/emitter-io/emitter/internal/verifauto"
	"io"
	"os"
	"runtime/debug"
	"strconv"
	"strings"
	"sync"
	"testing"
	"testing/synctest"
	"time"
)

// World is one workload+oracle.
type World struct {
	Property        string
	Bubble          bool          // run inside a synctest bubble (fake clock, quiescence)
	Run             func(c *Ctx)  // the simulated run; raises violations through c.Check
	RunsPerProc     int           // worker processes are recycled after this many runs
	RunTimeout      time.Duration // real-time watchdog per run
	Rule            string        // how cases are generated and what makes one non-trivial (evidence)
	Real            []string      // components that run real code
	Stub            []string      // components that are stubs
	Assumptions     []string
	HangIsViolation bool // C09: a run that does not finish is the violation
}

// Registry holds every world by property id.
var Registry = map[string]*World{}

// Register adds a world.
func Register(w *World) {
	if w.RunsPerProc == 0 {
		w.RunsPerProc = 400
	}
	if v := os.Getenv("VERIF_RUN_TIMEOUT_S"); v != "" { // debugging aid
		if n, err := strconv.Atoi(v); err == nil {
			w.RunTimeout = time.Duration(n) * time.Second
		}
	}
	if w.RunTimeout == 0 {
		w.RunTimeout = 120 * time.Second
	}
	Registry[w.Property] = w
}

// Result is the outcome of one run.
type Result struct {
	Violation *Violation
	Harness   string
	LogHash   uint64
	Stats     Stats
	States    []uint64
	NonTriv   bool
	Tape      []uint32
	Marks     []int
	Lines     []string
}

// Epoch is where simulated runs start: a bubble's clock begins at 2000-01-01
// and the world sleeps to a tape-chosen instant in 2025-2027 before anything
// with a ticker exists.
func (c *Ctx) SleepToEpoch() time.Time {
	base := time.Date(2025, 1, 1, 0, 0, 0, 0, time.UTC)
	target := base.Add(time.Duration(c.Tape.Choose(730))*24*time.Hour +
		time.Duration(c.Tape.Choose(86400))*time.Second +
		time.Duration(c.Tape.Choose(1000))*time.Millisecond)
	time.Sleep(time.Until(target))
	return target
}

// RunOnce executes the world once on the given tape.
func RunOnce(t *testing.T, w *World, tape *Tape, trace bool, known []KnownFinding, params map[string]string, scratch string) *Result {
	c := newCtx(w.Property, tape, trace, known)
	for k, v := range params {
		c.Params[k] = v
	}
	c.Scratch = scratch
	c.T = t
	// the order in which the code under test walks its replicated maps is part of the run: a
	// function of the run's seed (tools/autoyield routes those walks through verifauto.Keys)
	verifauto.OrderSeed = tape.Seed | 1
	// a buffer given back to a pool is overwritten at once (tools/autoyield: verifauto.Poison)
	verifauto.PoisonOn = os.Getenv("VERIF_NOPOISON") == ""
	// crypto/rand is a source of choice too (key salts, nonces): for the length of the run its Reader
	// is a stream derived from the run's seed, so two runs of one seed draw the same "random" bytes
	defer func(old io.Reader) { crand.Reader = old }(crand.Reader)
	crand.Reader = &seededReader{x: tape.Seed ^ 0x5eed5eed5eed5eed}
	// every run starts as a fresh process as far as message ids go (sequence counter 0, a nonce
	// drawn from the run's own stream): what a run sees must not depend on the runs before it
	message.VerifNewProcess()
	res := &Result{}
	body := func() {
		defer func() {
			if r := recover(); r != nil {
				switch x := r.(type) {
				case *Violation:
					res.Violation = x
				case *HarnessError:
					res.Harness = x.Msg
				default:
					res.Harness = fmt.Sprintf("panic in simulator goroutine: %v\n%s", r, debug.Stack())
				}
			}
		}()
		w.Run(c)
	}
	if w.Bubble {
		func() {
			defer func() {
				if r := recover(); r != nil {
					msg := fmt.Sprint(r)
					if strings.Contains(msg, "main bubble goroutine has exited") {
						return // leaked library goroutines: frozen in the dead bubble
					}
					if res.Harness == "" && res.Violation == nil {
						res.Harness = "bubble: " + msg
					}
				}
			}()
			synctest.Test(t, func(t *testing.T) { body() })
		}()
	} else {
		body()
	}
	res.LogHash = c.LogHash()
	res.Stats = c.Stats
	res.States = c.StateHashes()
	res.NonTriv = c.NonTriv
	res.Tape = append([]uint32(nil), tape.Recorded()...)
	res.Marks = append([]int(nil), tape.Marks()...)
	res.Lines = c.Lines
	return res
}

// sameClass: minimisation holds property+rule fixed.
func sameClass(a, b *Violation) bool {
	return a != nil && b != nil && a.Property == b.Property && a.Rule == b.Rule
}

// Shrink minimises a failing tape by delta debugging while the same violation
// class persists.
func Shrink(t *testing.T, w *World, seed uint64, failing *Result, known []KnownFinding, params map[string]string, scratch string, budget time.Duration) *Result {
	deadline := time.Now().Add(budget)
	best := failing
	try := func(vals []uint32) bool {
		if time.Now().After(deadline) {
			return false
		}
		os.RemoveAll(scratch)
		os.MkdirAll(scratch, 0o755)
		r := RunOnce(t, w, ReplayTape(seed, vals), false, known, params, scratch)
		if sameClass(r.Violation, failing.Violation) && len(r.Tape) <= len(best.Tape) {
			// keep only what was consumed
			best = r
			return true
		}
		return false
	}
	// 1. shortest failing prefix in steps
	for changed := true; changed && time.Now().Before(deadline); {
		changed = false
		steps := stepSpans(best)
		// drop spans: chunk sizes n/2 .. 1
		for chunk := len(steps) / 2; chunk >= 1 && time.Now().Before(deadline); chunk /= 2 {
			for i := 0; i+chunk <= len(steps); {
				lo, hi := steps[i][0], steps[i+chunk-1][1]
				cand := append(append([]uint32(nil), best.Tape[:lo]...), best.Tape[hi:]...)
				if try(cand) {
					steps = stepSpans(best)
					changed = true
				} else {
					i += chunk
				}
				if time.Now().After(deadline) {
					break
				}
			}
		}
		// zero / halve single values
		for i := 0; i < len(best.Tape) && time.Now().Before(deadline); i++ {
			v := best.Tape[i]
			if v == 0 {
				continue
			}
			cand := append([]uint32(nil), best.Tape...)
			cand[i] = 0
			if try(cand) {
				changed = true
				continue
			}
			if v > 1 {
				cand = append([]uint32(nil), best.Tape...)
				cand[i] = v / 2
				if try(cand) {
					changed = true
				}
			}
		}
	}
	// trim trailing zeros (an exhausted tape yields zeros anyway)
	vals := best.Tape
	for len(vals) > 0 && vals[len(vals)-1] == 0 {
		vals = vals[:len(vals)-1]
	}
	os.RemoveAll(scratch)
	os.MkdirAll(scratch, 0o755)
	final := RunOnce(t, w, ReplayTape(seed, vals), true, known, params, scratch)
	if sameClass(final.Violation, failing.Violation) {
		final.Tape = vals
		return final
	}
	os.RemoveAll(scratch)
	os.MkdirAll(scratch, 0o755)
	final = RunOnce(t, w, ReplayTape(seed, best.Tape), true, known, params, scratch)
	return final
}

func stepSpans(r *Result) [][2]int {
	var out [][2]int
	for i, m := range r.Marks {
		end := len(r.Tape)
		if i+1 < len(r.Marks) {
			end = r.Marks[i+1]
		}
		if m < end && end <= len(r.Tape) {
			out = append(out, [2]int{m, end})
		}
	}
	return out
}

// seededReader is a splitmix64 byte stream (not secure; it stands in for crypto/rand inside a run).
type seededReader struct {
	mu sync.Mutex
	x  uint64
}

func (r *seededReader) Read(p []byte) (int, error) {
	r.mu.Lock()
	defer r.mu.Unlock()
	for i := range p {
		if i%8 == 0 {
			r.x += 0x9e3779b97f4a7c15
		}
		z := r.x
		z = (z ^ (z >> 30)) * 0xbf58476d1ce4e5b9
		z = (z ^ (z >> 27)) * 0x94d049bb133111eb
		z ^= z >> 31
		p[i] = byte(z >> (8 * uint(i%8)))
	}
	return len(p), nil
}
