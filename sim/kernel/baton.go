package kernel

import (
	"bytes"
	"runtime"
	"sort"
	"strconv"
	"strings"
	"sync"
	"time"
)

// Baton is the scheduler behind the yield points (internal/verifyield): every
// goroutine that reaches a Point while the baton is active parks on its own
// channel; the simulator releases exactly one at a time, chosen by the tape.
// Parked tasks are presented in goroutine-creation order, which is the same in
// every run, so a tape index always designates the same task.
type Baton struct {
	mu     sync.Mutex
	active bool
	parked []*Parked
	// NoParkUnder lists function-name fragments: a goroutine that reaches a yield
	// point below such a function holds a lock (synctest treats a goroutine blocked
	// on a sync.Mutex as runnable, so parking there would hang the bubble).
	NoParkUnder []string
	// OnlySites, when set, restricts parking to these sites (yield points that lie
	// inside a critical section protected by a sync.Mutex cannot be parked at).
	OnlySites []string
	// Auto lists path prefixes (e.g. "internal/event/crdt/") of the scheduling points
	// that tools/autoyield inserts around mutex operations in the scratch copy of the
	// tree ("auto:<path>:<func>:<n>:<kind>"); auto points elsewhere never park.
	Auto []string
	// AutoSkip lists fragments of auto site names that never park (periodic
	// housekeeping whose boundaries would only dilute the schedule).
	AutoSkip []string
	// ParkHolding allows a task to park while it holds an instrumented mutex. Safe
	// when every goroutine that may want that mutex is itself scheduled by the baton
	// (it is then kept parked at its Acquire point until the mutex is free).
	ParkHolding bool
	// PreemptSite (debugging and demonstrations): in Drive's preemptive modes the running
	// task is also preempted the first time it is parked at a site containing this text.
	PreemptSite string
	owner       uint64 // the simulator goroutine: it must never park itself
	holders     map[uintptr]*holder
	depth       map[uint64]int // instrumented mutexes held per goroutine
}

type holder struct {
	writer  uint64
	readers int
}

// NewBaton creates a baton owned by the calling (simulator) goroutine.
func NewBaton() *Baton {
	return &Baton{owner: goid(), holders: map[uintptr]*holder{}, depth: map[uint64]int{}}
}

// Goid is the id of the calling goroutine.
func Goid() uint64 { return goid() }

func (b *Baton) underLock() bool {
	if len(b.NoParkUnder) == 0 {
		return false
	}
	pcs := make([]uintptr, 24)
	n := runtime.Callers(3, pcs)
	frames := runtime.CallersFrames(pcs[:n])
	for {
		f, more := frames.Next()
		for _, frag := range b.NoParkUnder {
			if strings.Contains(f.Function, frag) {
				return true
			}
		}
		if !more {
			return false
		}
	}
}

// Parked is one goroutine waiting at a yield point.
type Parked struct {
	Site  string
	Goid  uint64
	Wants uintptr // the mutex the task is about to take (0: none / unknown)
	Excl  bool
	ch    chan struct{}
}

func goid() uint64 {
	var buf [64]byte
	b := buf[:runtime.Stack(buf[:], false)]
	b = bytes.TrimPrefix(b, []byte("goroutine "))
	if i := bytes.IndexByte(b, ' '); i > 0 {
		n, _ := strconv.ParseUint(string(b[:i]), 10, 64)
		return n
	}
	return 0
}

// Hook is what gets installed as verifyield.Hook (and verifauto.Hook).
func (b *Baton) Hook(site string) { b.park(site, 0, false) }

// AcquireHook is installed as verifauto.AcquireHook: a scheduling point that names
// the mutex the goroutine takes next.
func (b *Baton) AcquireHook(site string, mutex uintptr, exclusive bool) {
	b.park(site, mutex, exclusive)
}

// LockHook is installed as verifauto.LockHook.
func (b *Baton) LockHook(mutex uintptr, delta int, exclusive bool) {
	me := goid()
	b.mu.Lock()
	defer b.mu.Unlock()
	b.depth[me] += delta
	if b.depth[me] <= 0 {
		delete(b.depth, me)
	}
	if mutex == 0 {
		return
	}
	h := b.holders[mutex]
	if h == nil {
		h = &holder{}
		b.holders[mutex] = h
	}
	switch {
	case delta > 0 && exclusive:
		h.writer = me
	case delta > 0:
		h.readers++
	case h.writer == me:
		h.writer = 0
	case h.readers > 0:
		h.readers--
	}
	if h.writer == 0 && h.readers == 0 {
		delete(b.holders, mutex)
	}
}

func (b *Baton) allowed(site string) bool {
	if strings.HasPrefix(site, "auto:") {
		for _, f := range b.AutoSkip {
			if strings.Contains(site, f) {
				return false
			}
		}
		for _, p := range b.Auto {
			if strings.HasPrefix(site[5:], p) {
				return true
			}
		}
		return false
	}
	if len(b.OnlySites) == 0 {
		return true
	}
	for _, s := range b.OnlySites {
		if s == site {
			return true
		}
	}
	return false
}

func (b *Baton) park(site string, wants uintptr, excl bool) {
	b.mu.Lock()
	if !b.active || !b.allowed(site) || b.underLock() {
		b.mu.Unlock()
		return
	}
	me := goid()
	if me == b.owner {
		b.mu.Unlock()
		return // a yield point reached on the simulator goroutine itself (e.g. a Gossiper callback it delivers)
	}
	if b.depth[me] > 0 && !b.ParkHolding {
		b.mu.Unlock()
		return // holds a mutex: somebody blocked on it would not be durably blocked
	}
	p := &Parked{Site: site, Goid: me, Wants: wants, Excl: excl, ch: make(chan struct{})}
	b.parked = append(b.parked, p)
	b.mu.Unlock()
	<-p.ch // durably blocked: the simulator decides when this task continues
}

// free reports whether a task waiting for this mutex could take it now.
func (b *Baton) free(p *Parked) bool {
	if p.Wants == 0 {
		return true
	}
	h := b.holders[p.Wants]
	if h == nil {
		return true
	}
	if p.Excl {
		return false
	}
	return h.writer == 0
}

// SetActive switches parking on or off (off: every Point returns at once).
func (b *Baton) SetActive(on bool) {
	b.mu.Lock()
	b.active = on
	b.mu.Unlock()
}

// Parked lists the parked tasks that can run (those about to take a mutex somebody
// holds are left out) in canonical (goroutine creation) order.
func (b *Baton) Parked() []*Parked {
	b.mu.Lock()
	defer b.mu.Unlock()
	var out []*Parked
	for _, p := range b.parked {
		if b.free(p) {
			out = append(out, p)
		}
	}
	sort.Slice(out, func(i, j int) bool { return out[i].Goid < out[j].Goid })
	return out
}

// Waiting is the number of parked tasks, runnable or not.
func (b *Baton) Waiting() int {
	b.mu.Lock()
	defer b.mu.Unlock()
	return len(b.parked)
}

// Release lets one parked task run to its next yield point or blocking call.
func (b *Baton) Release(p *Parked) {
	b.mu.Lock()
	for i, q := range b.parked {
		if q == p {
			b.parked = append(b.parked[:i], b.parked[i+1:]...)
			break
		}
	}
	b.mu.Unlock()
	close(p.ch)
}

// ReleaseAll switches the baton off and lets everybody run.
func (b *Baton) ReleaseAll() {
	b.mu.Lock()
	b.active = false
	ps := b.parked
	b.parked = nil
	b.mu.Unlock()
	for _, p := range ps {
		close(p.ch)
	}
}

// Drive releases parked tasks one at a time until nobody is parked. The tape
// picks the policy:
//   - uniformly random at every step;
//   - PCT-like: one task runs on while it can and is preempted at one or two
//     tape-chosen depths - the schedules "A runs deep into its critical sections,
//     then B runs to the end" that a uniform choice practically never produces;
//   - sticky with biased preemption: the running task keeps running and is
//     preempted with probability 1/3 where it has just left a critical section or
//     a lock-free operation (":unlocked", ":synced" - where read-then-act windows
//     open) and 1/16 elsewhere.
//
// settle must wait until the released task is parked again, blocked or finished;
// visit is told what is about to run.
func (b *Baton) Drive(t *Tape, settle func(), visit func(p *Parked, runnable, waiting int), maxSteps int) (steps int, stuck bool) {
	mode := t.Choose(4) // 0: uniform; 1: one preemption; 2: two preemptions; 3: sticky, biased
	var switchAt []int
	if mode == 1 || mode == 2 {
		switchAt = append(switchAt, t.Range(0, 64))
		if mode == 2 {
			switchAt = append(switchAt, switchAt[0]+t.Range(1, 32))
		}
	}
	var cur uint64
	for ; steps < maxSteps; steps++ {
		// a microsecond of simulated time passes between any two scheduling steps, so that two tasks never
		// act at the same instant: timers armed by two of them never tie (which of two timers due at the
		// same instant the runtime fires first is owned by nobody)
		time.Sleep(time.Microsecond)
		settle()
		pk := b.Parked()
		if len(pk) == 0 {
			return steps, b.Waiting() > 0
		}
		var p *Parked
		if mode == 0 {
			p = pk[t.Choose(len(pk))]
		} else {
			var mine *Parked
			for _, q := range pk {
				if q.Goid == cur {
					mine = q
				}
			}
			preempt := false
			switch {
			case mine == nil || len(pk) == 1:
			case mode == 3:
				if strings.HasSuffix(mine.Site, ":synced") || strings.HasSuffix(mine.Site, ":unlocked") {
					preempt = t.Chance(1, 3)
				} else {
					preempt = t.Chance(1, 16)
				}
			default:
				if len(switchAt) > 0 && steps >= switchAt[0] {
					preempt, switchAt = true, switchAt[1:]
				}
			}
			if mine != nil && b.PreemptSite != "" && strings.Contains(mine.Site, b.PreemptSite) && len(pk) > 1 {
				preempt, b.PreemptSite = true, ""
			}
			if mine != nil && !preempt {
				p = mine
			} else {
				var others []*Parked
				for _, q := range pk {
					if q.Goid != cur {
						others = append(others, q)
					}
				}
				if len(others) == 0 {
					others = pk
				}
				p = others[t.Choose(len(others))]
			}
			cur = p.Goid
		}
		visit(p, len(pk), b.Waiting())
		b.Release(p)
	}
	return steps, true
}
