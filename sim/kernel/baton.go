package kernel

import (
	"bytes"
	"runtime"
	"sort"
	"strconv"
	"strings"
	"sync"
)

// Baton is the scheduler behind the yield points (internal/verifyield): every
// goroutine that reaches a Point while the baton is active parks on its own
// channel; the simulator releases exactly one at a time, chosen by the tape.
// Parked tasks are presented in goroutine-creation order, which is the same in
// every run, so a tape index always designates the same task.
type Baton struct {
	mu     sync.Mutex
	active bool
	parked []*Parked
	// NoParkUnder lists function-name fragments: a goroutine that reaches a yield
	// point below such a function holds a lock (synctest treats a goroutine blocked
	// on a sync.Mutex as runnable, so parking there would hang the bubble).
	NoParkUnder []string
	// OnlySites, when set, restricts parking to these sites (yield points that lie
	// inside a critical section protected by a sync.Mutex cannot be parked at).
	OnlySites []string
	owner     uint64 // the simulator goroutine: it must never park itself
}

// NewBaton creates a baton owned by the calling (simulator) goroutine.
func NewBaton() *Baton { return &Baton{owner: goid()} }

func (b *Baton) underLock() bool {
	if len(b.NoParkUnder) == 0 {
		return false
	}
	pcs := make([]uintptr, 24)
	n := runtime.Callers(3, pcs)
	frames := runtime.CallersFrames(pcs[:n])
	for {
		f, more := frames.Next()
		for _, frag := range b.NoParkUnder {
			if strings.Contains(f.Function, frag) {
				return true
			}
		}
		if !more {
			return false
		}
	}
}

// Parked is one goroutine waiting at a yield point.
type Parked struct {
	Site string
	Goid uint64
	ch   chan struct{}
}

func goid() uint64 {
	var buf [64]byte
	b := buf[:runtime.Stack(buf[:], false)]
	b = bytes.TrimPrefix(b, []byte("goroutine "))
	if i := bytes.IndexByte(b, ' '); i > 0 {
		n, _ := strconv.ParseUint(string(b[:i]), 10, 64)
		return n
	}
	return 0
}

// Hook is what gets installed as verifyield.Hook.
func (b *Baton) Hook(site string) {
	b.mu.Lock()
	if !b.active || b.underLock() {
		b.mu.Unlock()
		return
	}
	if len(b.OnlySites) > 0 {
		ok := false
		for _, s := range b.OnlySites {
			if s == site {
				ok = true
			}
		}
		if !ok {
			b.mu.Unlock()
			return
		}
	}
	me := goid()
	if me == b.owner {
		b.mu.Unlock()
		return // a yield point reached on the simulator goroutine itself (e.g. a Gossiper callback it delivers)
	}
	p := &Parked{Site: site, Goid: me, ch: make(chan struct{})}
	b.parked = append(b.parked, p)
	b.mu.Unlock()
	<-p.ch // durably blocked: the simulator decides when this task continues
}

// SetActive switches parking on or off (off: every Point returns at once).
func (b *Baton) SetActive(on bool) {
	b.mu.Lock()
	b.active = on
	b.mu.Unlock()
}

// Parked lists the parked tasks in canonical (goroutine creation) order.
func (b *Baton) Parked() []*Parked {
	b.mu.Lock()
	defer b.mu.Unlock()
	out := append([]*Parked(nil), b.parked...)
	sort.Slice(out, func(i, j int) bool { return out[i].Goid < out[j].Goid })
	return out
}

// Release lets one parked task run to its next yield point or blocking call.
func (b *Baton) Release(p *Parked) {
	b.mu.Lock()
	for i, q := range b.parked {
		if q == p {
			b.parked = append(b.parked[:i], b.parked[i+1:]...)
			break
		}
	}
	b.mu.Unlock()
	close(p.ch)
}

// ReleaseAll switches the baton off and lets everybody run.
func (b *Baton) ReleaseAll() {
	b.mu.Lock()
	b.active = false
	ps := b.parked
	b.parked = nil
	b.mu.Unlock()
	for _, p := range ps {
		close(p.ch)
	}
}
