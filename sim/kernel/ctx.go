package kernel

import (
	"fmt"
	"hash"
	"hash/fnv"
	"regexp"
	"sort"
	"strings"
	"testing"
	"testing/synctest"
	"time"
)

// Violation is what a world raises when an oracle rule fires.
type Violation struct {
	Property string `json:"property"`
	Rule     string `json:"rule"`
	Disc     string `json:"disc"` // discriminator: canonical shape of the failing instance
	Detail   string `json:"detail"`
}

func (v *Violation) Error() string {
	return fmt.Sprintf("property=%s rule=%s disc=%s: %s", v.Property, v.Rule, v.Disc, v.Detail)
}

// KnownFinding is one entry of /verif/known_findings.json.
type KnownFinding struct {
	Property string `json:"property"`
	Rule     string `json:"rule"`
	Match    string `json:"match"` // regular expression over the discriminator
	What     string `json:"what"`
	Status   string `json:"status"` // "open" or "fixed: <commit>"
	re       *regexp.Regexp
}

// Stats are the per-run counters aggregated into the evidence file.
type Stats struct {
	Steps   int
	SimTime time.Duration
	Faults  map[string]int
	Probes  map[string]int
	Known   map[string]int
}

// Ctx is handed to a world for one run.
type Ctx struct {
	Property  string
	Tape      *Tape
	Trace     bool
	Lines     []string
	h         hash.Hash64
	Stats     Stats
	states    map[uint64]struct{}
	NonTriv   bool
	known     []KnownFinding
	Params    map[string]string // world parameters (tier, campaign)
	Scratch   string            // scratch directory for this run (on /dev/shm)
	once      map[string]bool
	unordered []string
	PreLog    []func() // run before every ordered log line: worlds emit pending net effects through LogUnordered
	T         *testing.T
}

// Bubble runs fn inside a synctest bubble of its own (fake clock, quiescence
// detection): for campaigns of a world that otherwise needs none. A violation or
// harness error raised inside is raised again outside.
func (c *Ctx) Bubble(fn func()) {
	var pv any
	func() {
		defer func() {
			if r := recover(); r != nil {
				msg := fmt.Sprint(r)
				if strings.Contains(msg, "main bubble goroutine has exited") {
					return
				}
				if pv == nil {
					pv = &HarnessError{Msg: "bubble: " + msg}
				}
			}
		}()
		synctest.Test(c.T, func(*testing.T) {
			defer func() { pv = recover() }()
			fn()
		})
	}()
	if pv != nil {
		panic(pv)
	}
}

func newCtx(prop string, tape *Tape, trace bool, known []KnownFinding) *Ctx {
	return &Ctx{Property: prop, Tape: tape, Trace: trace, h: fnv.New64a(),
		Stats:  Stats{Faults: map[string]int{}, Probes: map[string]int{}, Known: map[string]int{}},
		states: map[uint64]struct{}{}, known: known, Params: map[string]string{}}
}

// Logf appends a line to the canonical event log. It never draws from the
// tape and never reads a real clock.
func (c *Ctx) Logf(format string, a ...any) {
	c.flushUnordered()
	c.logLine(fmt.Sprintf(format, a...))
}

// Note adds a line to the trace only (never to the canonical log or its hash): details that differ
// from execution to execution, such as goroutine ids.
func (c *Ctx) Note(format string, a ...any) {
	if c.Trace {
		c.Lines = append(c.Lines, "    # "+fmt.Sprintf(format, a...))
	}
}

// LogUnordered records a line whose position relative to the other unordered
// lines of the same simulator step is not defined (e.g. callbacks fired while
// the implementation iterates over a Go map). The batch is sorted before it
// enters the canonical log.
func (c *Ctx) LogUnordered(format string, a ...any) {
	c.unordered = append(c.unordered, fmt.Sprintf(format, a...))
}

func (c *Ctx) flushUnordered() {
	for _, f := range c.PreLog {
		f()
	}
	if len(c.unordered) == 0 {
		return
	}
	sort.Strings(c.unordered)
	for _, l := range c.unordered {
		c.logLine(l)
	}
	c.unordered = c.unordered[:0]
}

func (c *Ctx) logLine(s string) {
	c.h.Write([]byte(s))
	c.h.Write([]byte{'\n'})
	if c.Trace {
		c.Lines = append(c.Lines, s)
	}
}

// LogHash is the hash of the canonical event log so far.
func (c *Ctx) LogHash() uint64 { c.flushUnordered(); return c.h.Sum64() }

// Once reports true the first time it is called with this string in this run.
func (c *Ctx) Once(s string) bool {
	if c.once == nil {
		c.once = map[string]bool{}
	}
	if c.once[s] {
		return false
	}
	c.once[s] = true
	return true
}

// Fault counts one injected fault that actually fired.
func (c *Ctx) Fault(kind string) { c.Stats.Faults[kind]++ }

// Probe counts one "this rare condition was hit" event.
func (c *Ctx) Probe(name string) { c.Stats.Probes[name]++ }

// Step counts one simulator step.
func (c *Ctx) Step() { c.Stats.Steps++; c.Tape.Mark() }

// State records an abstract state (the stated measure of reach).
func (c *Ctx) State(s string) {
	h := fnv.New64a()
	h.Write([]byte(s))
	c.states[h.Sum64()] = struct{}{}
}

// StateHashes returns the abstract states seen in this run.
func (c *Ctx) StateHashes() []uint64 {
	out := make([]uint64, 0, len(c.states))
	for k := range c.states {
		out = append(out, k)
	}
	sort.Slice(out, func(i, j int) bool { return out[i] < out[j] })
	return out
}

// NonTrivial marks the run as having exercised the property's core.
func (c *Ctx) NonTrivial() { c.NonTriv = true }

// IsKnown reports whether (rule, disc) is listed as an open known finding.
func (c *Ctx) IsKnown(rule, disc string) *KnownFinding {
	for i := range c.known {
		k := &c.known[i]
		if k.Property != c.Property || k.Rule != rule || k.Status != "open" {
			continue
		}
		if k.re == nil {
			k.re = regexp.MustCompile(k.Match)
		}
		if k.re.MatchString(disc) {
			return k
		}
	}
	return nil
}

// Check raises a violation unless (rule, disc) is an open known finding, in
// which case it is counted, logged, and true is returned so that the world can
// resynchronise its model with the implementation for that one instance.
func (c *Ctx) Check(rule, disc, format string, a ...any) (known bool) {
	if k := c.IsKnown(rule, disc); k != nil {
		c.Stats.Known[rule+"|"+k.Match]++
		c.Logf("KNOWN %s %s", rule, disc)
		return true
	}
	panic(&Violation{Property: c.Property, Rule: rule, Disc: disc, Detail: fmt.Sprintf(format, a...)})
}

// Failf raises a violation that can never be a known finding.
func (c *Ctx) Failf(rule, disc, format string, a ...any) {
	c.Check(rule, disc, format, a...)
}

// HarnessError is raised for trouble that is not a property violation.
type HarnessError struct{ Msg string }

func (e *HarnessError) Error() string { return "harness: " + e.Msg }

// Harnessf aborts the run with exit-2 semantics.
func (c *Ctx) Harnessf(format string, a ...any) {
	panic(&HarnessError{Msg: fmt.Sprintf(format, a...)})
}
