// Package kernel holds the simulator's single source of choice (the tape), the
// run context (event log, counters, violations), the bubble runner, the
// shrinker and the worker protocol shared by all checks.
package kernel

import (
	"encoding/binary"
	"hash/fnv"
)

// Tape is the only source of nondeterminism a world may consult.  In generate
// mode every value is drawn from a PRNG seeded from one integer and recorded; in
// replay mode the recorded value (modulo the arity asked for) is returned and 0
// once the tape is exhausted.
type Tape struct {
	Seed    uint64
	s       [4]uint64
	rec     []uint32
	marks   []int // indices into rec where a step starts
	replay  []uint32
	pos     int
	replayM bool
}

func splitmix(x *uint64) uint64 {
	*x += 0x9e3779b97f4a7c15
	z := *x
	z = (z ^ (z >> 30)) * 0xbf58476d1ce4e5b9
	z = (z ^ (z >> 27)) * 0x94d049bb133111eb
	return z ^ (z >> 31)
}

// NewTape returns a generating tape.
func NewTape(seed uint64) *Tape {
	t := &Tape{Seed: seed}
	x := seed
	for i := range t.s {
		t.s[i] = splitmix(&x)
	}
	return t
}

// ReplayTape returns a tape that replays the given values.
func ReplayTape(seed uint64, vals []uint32) *Tape {
	return &Tape{Seed: seed, replay: vals, replayM: true}
}

func rotl(x uint64, k uint) uint64 { return (x << k) | (x >> (64 - k)) }

func (t *Tape) next() uint64 {
	s := &t.s
	r := rotl(s[1]*5, 7) * 9
	x := s[1] << 17
	s[2] ^= s[0]
	s[3] ^= s[1]
	s[1] ^= s[2]
	s[0] ^= s[3]
	s[2] ^= x
	s[3] = rotl(s[3], 45)
	return r
}

// Choose returns a value in [0,n). n<=1 consumes nothing.
func (t *Tape) Choose(n int) int {
	if n <= 1 {
		return 0
	}
	var v uint32
	if t.replayM {
		if t.pos < len(t.replay) {
			v = t.replay[t.pos] % uint32(n)
		}
		t.pos++
	} else {
		v = uint32(t.next()>>33) % uint32(n)
	}
	t.rec = append(t.rec, v)
	return int(v)
}

// Range returns a value in [lo,hi].
func (t *Tape) Range(lo, hi int) int { return lo + t.Choose(hi-lo+1) }

// Chance is true with probability num/den (false when the tape is exhausted).
func (t *Tape) Chance(num, den int) bool { return t.Choose(den) >= den-num }

// Mark records a step boundary (used by the shrinker to drop whole steps).
func (t *Tape) Mark() { t.marks = append(t.marks, len(t.rec)) }

// Exhausted reports whether a replaying tape has no recorded value left.
func (t *Tape) Exhausted() bool { return t.replayM && t.pos >= len(t.replay) }

// Replaying reports whether this tape replays.
func (t *Tape) Replaying() bool { return t.replayM }

// Recorded returns the values handed out so far.
func (t *Tape) Recorded() []uint32 { return t.rec }

// Marks returns the recorded step boundaries.
func (t *Tape) Marks() []int { return t.marks }

// Sub derives an independent seed (for per-run seeds).
func DeriveSeed(base uint64, prop string, index uint64) uint64 {
	h := fnv.New64a()
	var b [8]byte
	binary.LittleEndian.PutUint64(b[:], base)
	h.Write(b[:])
	h.Write([]byte(prop))
	binary.LittleEndian.PutUint64(b[:], index)
	h.Write(b[:])
	x := h.Sum64()
	return splitmix(&x)
}
