package kernel

import (
	"encoding/binary"
	"encoding/json"
	"fmt"
	"os"
	"path/filepath"
	"runtime"
	"sort"
	"strconv"
	"strings"
	"sync/atomic"
	"testing"
	"time"
)

// ReplayFile is what a violation is reported as.
type ReplayFile struct {
	Property string            `json:"property"`
	Seed     uint64            `json:"seed"`
	RunIndex uint64            `json:"run_index"`
	BaseSeed uint64            `json:"base_seed"`
	Params   map[string]string `json:"params"`
	Tape     []uint32          `json:"tape"`
	Rule     string            `json:"rule"`
	Disc     string            `json:"disc"`
	Detail   string            `json:"detail"`
	OrigLen  int               `json:"original_tape_len"`
	Trace    []string          `json:"trace"`
}

// WorkerResult is what one worker process reports to the driver.
type WorkerResult struct {
	Property    string         `json:"property"`
	From        uint64         `json:"from"`
	Stride      uint64         `json:"stride"`
	Runs        int            `json:"runs"`
	Next        uint64         `json:"next"`
	NonTrivial  int            `json:"nontrivial"`
	Steps       int64          `json:"steps"`
	SimTimeS    float64        `json:"sim_time_s"`
	Faults      map[string]int `json:"faults"`
	Probes      map[string]int `json:"probes"`
	Known       map[string]int `json:"known"`
	DetChecks   int            `json:"determinism_checks"`
	DetFailures []string       `json:"determinism_failures"`
	Harness     []string       `json:"harness_errors"`
	Violations  []ViolationOut `json:"violations"`
	Samples     []any          `json:"samples"`
	WallS       float64        `json:"wall_s"`
	Rule        string         `json:"rule"`
	Real        []string       `json:"real"`
	Stub        []string       `json:"stub"`
	Assumptions []string       `json:"assumptions"`
	Done        bool           `json:"done"` // deadline or max runs reached
}

// ViolationOut is a reported violation.
type ViolationOut struct {
	Rule     string `json:"rule"`
	Disc     string `json:"disc"`
	Detail   string `json:"detail"`
	Seed     uint64 `json:"seed"`
	Replay   string `json:"replay"`
	Replayed bool   `json:"replayed_same"`
}

func envU(name string, def uint64) uint64 {
	if v := os.Getenv(name); v != "" {
		if x, err := strconv.ParseUint(v, 10, 64); err == nil {
			return x
		}
	}
	return def
}

func parseParams(s string) map[string]string {
	m := map[string]string{}
	for _, kv := range strings.Split(s, ",") {
		if i := strings.IndexByte(kv, '='); i > 0 {
			m[kv[:i]] = kv[i+1:]
		}
	}
	return m
}

// LoadKnown reads known_findings.json.
func LoadKnown(path string) []KnownFinding {
	var f struct {
		Findings []KnownFinding `json:"findings"`
	}
	b, err := os.ReadFile(path)
	if err != nil {
		return nil
	}
	if err := json.Unmarshal(b, &f); err != nil {
		fmt.Fprintf(Stderr, "known findings: %v\n", err)
		os.Exit(2)
	}
	return f.Findings
}

// Stderr is the process' real standard error, captured before any world
// redirects os.Stderr (emitter logs through it).
var Stderr = os.Stderr

var runStarted atomic.Int64 // unix nanos (real) when the current run began; 0 = idle
var curSeed atomic.Uint64

// WorkerMain is the body of TestWorker.
func WorkerMain(t *testing.T) {
	prop := os.Getenv("VERIF_PROP")
	w := Registry[prop]
	if w == nil {
		fmt.Fprintf(Stderr, "no world for %q\n", prop)
		os.Exit(2)
	}
	base := envU("VERIF_SEED", 1)
	from := envU("VERIF_FROM", 0)
	stride := envU("VERIF_STRIDE", 1)
	maxRuns := int(envU("VERIF_MAXRUNS", uint64(w.RunsPerProc)))
	deadline := time.Unix(int64(envU("VERIF_DEADLINE", uint64(time.Now().Add(30*time.Second).Unix()))), 0)
	out := os.Getenv("VERIF_OUT")
	params := parseParams(os.Getenv("VERIF_PARAMS"))
	params["tier"] = os.Getenv("VERIF_TIER")
	known := LoadKnown(os.Getenv("VERIF_KNOWN"))
	replayDir := os.Getenv("VERIF_REPLAY_DIR")
	scratchRoot := os.Getenv("VERIF_SCRATCH")
	if scratchRoot == "" {
		scratchRoot = fmt.Sprintf("/dev/shm/verif-w%d", os.Getpid())
	}
	scratch := filepath.Join(scratchRoot, fmt.Sprintf("w%d", from))
	defer os.RemoveAll(scratch)
	detEvery := int(envU("VERIF_DET_EVERY", 25))
	maxViol := int(envU("VERIF_MAXVIOL", 1))

	res := &WorkerResult{Property: prop, From: from, Stride: stride, Faults: map[string]int{}, Probes: map[string]int{}, Known: map[string]int{},
		Rule: w.Rule, Real: w.Real, Stub: w.Stub, Assumptions: w.Assumptions}
	hashes := []uint64{}
	states := map[uint64]struct{}{}
	start := time.Now()

	// Watchdog (outside any bubble): a run that does not finish in real time.
	progress := out + ".cur"
	go func() {
		for {
			time.Sleep(500 * time.Millisecond)
			if hard := envU("VERIF_HARD_RSS_MB", 8192) << 20; rssBytes() > hard {
				// something allocates without end (the simulated broker would be killed by the OS):
				// stop before the machine is exhausted; the driver treats it like any other death
				os.WriteFile(out+".hang", []byte(fmt.Sprintf("%d", curSeed.Load())), 0o644)
				fmt.Fprintf(Stderr, "WATCHDOG: run seed=%d: the process grew beyond %d MiB\n", curSeed.Load(), hard>>20)
				os.Exit(3)
			}
			if s := runStarted.Load(); s != 0 && time.Since(time.Unix(0, s)) > w.RunTimeout {
				os.WriteFile(out+".hang", []byte(fmt.Sprintf("%d", curSeed.Load())), 0o644)
				fmt.Fprintf(Stderr, "WATCHDOG: run seed=%d exceeded %v\n", curSeed.Load(), w.RunTimeout)
				buf := make([]byte, 4<<20)
				Stderr.Write(buf[:runtime.Stack(buf, true)])
				os.Exit(3)
			}
		}
	}()

	flush := func(done bool) {
		res.Done = done
		res.WallS = time.Since(start).Seconds()
		hb := make([]byte, 8*len(hashes))
		for i, h := range hashes {
			binary.LittleEndian.PutUint64(hb[8*i:], h)
		}
		os.WriteFile(out+".hashes", hb, 0o644)
		sb := make([]byte, 0, 8*len(states))
		for h := range states {
			sb = binary.LittleEndian.AppendUint64(sb, h)
		}
		os.WriteFile(out+".states", sb, 0o644)
		b, _ := json.Marshal(res)
		os.WriteFile(out+".tmp", b, 0o644)
		os.Rename(out+".tmp", out)
	}

	idx := from
	maxRSS := envU("VERIF_MAX_RSS_MB", 1500) << 20
	for n := 0; n < maxRuns && time.Now().Before(deadline); n++ {
		// goroutines of library code that outlive a run stay frozen in its dead bubble together with
		// what they reference: a process that has grown hands over to a fresh one (the driver
		// continues at the next index), so that 16 workers never exhaust the machine
		if n > 0 && rssBytes() > maxRSS {
			break
		}
		seed := DeriveSeed(base, prop, idx)
		curSeed.Store(seed)
		os.WriteFile(progress, []byte(fmt.Sprintf("%d %d", idx, seed)), 0o644)
		os.RemoveAll(scratch)
		os.MkdirAll(scratch, 0o755)
		runStarted.Store(time.Now().UnixNano())
		traceDir := os.Getenv("VERIF_TRACE_DIR")
		detRun := detEvery > 0 && n%detEvery == 0 // this run is repeated below: keep its trace for the diff
		r := RunOnce(t, w, NewTape(seed), traceDir != "" || detRun, known, params, scratch)
		runStarted.Store(0)
		if traceDir != "" {
			os.MkdirAll(traceDir, 0o755)
			os.WriteFile(filepath.Join(traceDir, fmt.Sprintf("%d.log", idx)), []byte(strings.Join(r.Lines, "\n")+"\n"), 0o644)
		}
		res.Runs++
		res.Steps += int64(r.Stats.Steps)
		res.SimTimeS += r.Stats.SimTime.Seconds()
		for k, v := range r.Stats.Faults {
			res.Faults[k] += v
		}
		for k, v := range r.Stats.Probes {
			res.Probes[k] += v
		}
		for k, v := range r.Stats.Known {
			res.Known[k] += v
		}
		if r.NonTriv {
			res.NonTrivial++
			hashes = append(hashes, r.LogHash)
		}
		for _, s := range r.States {
			states[s] = struct{}{}
		}
		if r.Harness != "" {
			res.Harness = append(res.Harness, fmt.Sprintf("seed=%d idx=%d: %s", seed, idx, r.Harness))
			idx += stride
			if len(res.Harness) >= 3 {
				break
			}
			continue
		}
		if r.Violation != nil {
			vo := reportViolation(t, w, base, idx, seed, r, known, params, scratch, replayDir)
			res.Violations = append(res.Violations, vo)
			if len(res.Violations) >= maxViol {
				idx += stride
				break
			}
		} else if detEvery > 0 && n%detEvery == 0 {
			os.RemoveAll(scratch)
			os.MkdirAll(scratch, 0o755)
			runStarted.Store(time.Now().UnixNano())
			r2 := RunOnce(t, w, NewTape(seed), true, known, params, scratch)
			runStarted.Store(0)
			res.DetChecks++
			if r2.LogHash != r.LogHash || (r2.Violation != nil) {
				// the two traces that differed (not later repetitions, which may agree with each other)
				os.WriteFile(fmt.Sprintf("/dev/shm/verif-det-%s-%d-a.log", prop, seed), []byte(strings.Join(r.Lines, "\n")+"\n"), 0o644)
				os.WriteFile(fmt.Sprintf("/dev/shm/verif-det-%s-%d-b.log", prop, seed), []byte(strings.Join(r2.Lines, "\n")+"\n"), 0o644)
				first := ""
				la, lb := canonicalLines(r.Lines), canonicalLines(r2.Lines)
				for i := 0; i < len(la) && i < len(lb); i++ {
					if la[i] != lb[i] {
						first = fmt.Sprintf(" first difference at line %d: %q vs %q", i+1, la[i], lb[i])
						break
					}
				}
				if first == "" {
					first = fmt.Sprintf(" (one trace is a prefix of the other: %d vs %d lines)", len(la), len(lb))
				}
				res.DetFailures = append(res.DetFailures, fmt.Sprintf("seed=%d idx=%d: %x vs %x;%s", seed, idx, r.LogHash, r2.LogHash, first))
			}
		}
		if n == 0 && from == 0 && len(res.Samples) == 0 {
			os.RemoveAll(scratch)
			os.MkdirAll(scratch, 0o755)
			r3 := RunOnce(t, w, ReplayTape(seed, r.Tape), true, known, params, scratch)
			lines := r3.Lines
			if len(lines) > 60 {
				lines = append(append([]string{}, lines[:60]...), fmt.Sprintf("... (%d more lines)", len(r3.Lines)-60))
			}
			res.Samples = append(res.Samples, map[string]any{"seed": seed, "run_index": idx, "tape_len": len(r.Tape), "steps": r.Stats.Steps, "trace": lines})
		}
		idx += stride
		if n%50 == 49 {
			res.Next = idx
			flush(false)
		}
	}
	res.Next = idx
	flush(true)
}

func reportViolation(t *testing.T, w *World, base, idx, seed uint64, r *Result, known []KnownFinding, params map[string]string, scratch, replayDir string) ViolationOut {
	// 1. confirm by replaying the recorded tape
	os.RemoveAll(scratch)
	os.MkdirAll(scratch, 0o755)
	confirm := RunOnce(t, w, ReplayTape(seed, r.Tape), false, known, params, scratch)
	vo := ViolationOut{Rule: r.Violation.Rule, Disc: r.Violation.Disc, Detail: r.Violation.Detail, Seed: seed}
	min := r
	if sameClass(confirm.Violation, r.Violation) {
		budget := time.Duration(envU("VERIF_SHRINK_S", 20)) * time.Second
		min = Shrink(t, w, seed, confirm, known, params, scratch, budget)
		if min.Violation == nil {
			min = confirm
		}
		vo.Replayed = true
	}
	rf := ReplayFile{Property: w.Property, Seed: seed, RunIndex: idx, BaseSeed: base, Params: params, Tape: min.Tape,
		Rule: min.Violation.Rule, Disc: min.Violation.Disc, Detail: min.Violation.Detail, OrigLen: len(r.Tape), Trace: min.Lines}
	vo.Rule, vo.Disc, vo.Detail = rf.Rule, rf.Disc, rf.Detail
	os.MkdirAll(replayDir, 0o755)
	path := filepath.Join(replayDir, fmt.Sprintf("%s-%d.json", w.Property, seed))
	b, _ := json.MarshalIndent(rf, "", " ")
	os.WriteFile(path, b, 0o644)
	vo.Replay = path
	return vo
}

// ReplayMain is the body of TestReplay: re-executes a replay file and prints
// whether the same rule fires.
func ReplayMain(t *testing.T) {
	path := os.Getenv("VERIF_REPLAY")
	b, err := os.ReadFile(path)
	if err != nil {
		fmt.Fprintln(Stderr, err)
		os.Exit(2)
	}
	var rf ReplayFile
	if err := json.Unmarshal(b, &rf); err != nil {
		fmt.Fprintln(Stderr, err)
		os.Exit(2)
	}
	w := Registry[rf.Property]
	if w == nil {
		os.Exit(2)
	}
	known := LoadKnown(os.Getenv("VERIF_KNOWN"))
	scratch := fmt.Sprintf("/dev/shm/verif-replay-%d", os.Getpid())
	os.MkdirAll(scratch, 0o755)
	defer os.RemoveAll(scratch)
	r := RunOnce(t, w, ReplayTape(rf.Seed, rf.Tape), true, known, rf.Params, scratch)
	for _, l := range r.Lines {
		fmt.Println(l)
	}
	keys := make([]string, 0)
	for k, v := range r.Stats.Faults {
		keys = append(keys, fmt.Sprintf("%s=%d", k, v))
	}
	sort.Strings(keys)
	fmt.Printf("faults: %s\n", strings.Join(keys, " "))
	if r.Harness != "" {
		fmt.Printf("HARNESS %s\n", r.Harness)
		os.Exit(2)
	}
	if r.Violation != nil {
		same := r.Violation.Rule == rf.Rule
		fmt.Printf("REPLAY-VIOLATION property=%s rule=%s same_rule=%v disc=%s\n  %s\n", rf.Property, r.Violation.Rule, same, r.Violation.Disc, r.Violation.Detail)
		os.Exit(1)
	}
	fmt.Printf("REPLAY-CLEAN property=%s (recorded rule %s did not fire)\n", rf.Property, rf.Rule)
	os.Exit(0)
}

// rssBytes is the resident set size of this process (0 when unknown).
func rssBytes() uint64 {
	b, err := os.ReadFile("/proc/self/statm")
	if err != nil {
		return 0
	}
	f := strings.Fields(string(b))
	if len(f) < 2 {
		return 0
	}
	n, _ := strconv.ParseUint(f[1], 10, 64)
	return n * uint64(os.Getpagesize())
}

// canonicalLines drops the trace-only notes (Ctx.Note), which are not part of the canonical log.
func canonicalLines(lines []string) []string {
	out := make([]string, 0, len(lines))
	for _, l := range lines {
		if !strings.HasPrefix(l, "    # ") {
			out = append(out, l)
		}
	}
	return out
}
