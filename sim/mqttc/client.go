// Package mqttc is the simulated MQTT client. It encodes and decodes with the
// paho `packets` codec (independent of emitter's own codec) and is driven only
// by the simulator goroutine.
package mqttc

import (
	"bytes"
	"fmt"

	"github.com/eclipse/paho.mqtt.golang/packets"
	"github.com/emitter-io/emitter/verifsim/simnet"
)

// Client is one simulated MQTT client.
type Client struct {
	Name     string
	Conn     *simnet.Conn
	inbuf    []byte
	nextMID  uint16
	ID       string // connection id as reported by emitter/me/
	Username string
	Gone     bool // the simulator ended this connection
	RawIn    []byte // every byte received (when KeepRaw)
	KeepRaw  bool
	Pipe     Pipe // when set, used instead of Conn (e.g. a WebSocket client)
}

// Pipe is any byte transport the simulator can write to and drain.
type Pipe interface {
	Write([]byte) (int, error)
	Drain() []byte
}

// New wraps the client end of a simulated connection.
func New(name string, conn *simnet.Conn) *Client {
	return &Client{Name: name, Conn: conn, nextMID: 1}
}

// MID returns a fresh packet id.
func (c *Client) MID() uint16 {
	id := c.nextMID
	c.nextMID++
	if c.nextMID == 0 {
		c.nextMID = 1
	}
	return id
}

// Encode returns the wire bytes of a packet.
func Encode(p packets.ControlPacket) []byte {
	var b bytes.Buffer
	if err := p.Write(&b); err != nil {
		panic(err)
	}
	return b.Bytes()
}

// Send writes a whole packet.
func (c *Client) Send(p packets.ControlPacket) { c.Write(Encode(p)) }

// Write sends raw bytes.
func (c *Client) Write(b []byte) {
	if c.Pipe != nil {
		c.Pipe.Write(b)
		return
	}
	c.Conn.Write(b)
}

// Connect builds a CONNECT packet.
func Connect(clientID, username string, will *Will) *packets.ConnectPacket {
	p := packets.NewControlPacket(packets.Connect).(*packets.ConnectPacket)
	p.ProtocolName = "MQTT"
	p.ProtocolVersion = 4
	p.CleanSession = true
	p.ClientIdentifier = clientID
	p.Keepalive = 60
	if username != "" {
		p.UsernameFlag = true
		p.Username = username
	}
	if will != nil {
		p.WillFlag = true
		p.WillTopic = will.Topic
		p.WillMessage = will.Payload
		p.WillRetain = will.Retain
	}
	return p
}

// Will is a last-will specification.
type Will struct {
	Topic   string
	Payload []byte
	Retain  bool
}

// Subscribe builds a SUBSCRIBE packet.
func (c *Client) Subscribe(topics ...string) *packets.SubscribePacket {
	p := packets.NewControlPacket(packets.Subscribe).(*packets.SubscribePacket)
	p.MessageID = c.MID()
	p.Topics = topics
	p.Qoss = make([]byte, len(topics))
	return p
}

// Unsubscribe builds an UNSUBSCRIBE packet.
func (c *Client) Unsubscribe(topics ...string) *packets.UnsubscribePacket {
	p := packets.NewControlPacket(packets.Unsubscribe).(*packets.UnsubscribePacket)
	p.MessageID = c.MID()
	p.Topics = topics
	return p
}

// Publish builds a PUBLISH packet (QoS 0 unless qos1).
func (c *Client) Publish(topic string, payload []byte, retain, qos1 bool) *packets.PublishPacket {
	p := packets.NewControlPacket(packets.Publish).(*packets.PublishPacket)
	p.TopicName = topic
	p.Payload = payload
	p.Retain = retain
	if qos1 {
		p.Qos = 1
		p.MessageID = c.MID()
	}
	return p
}

// Ping builds a PINGREQ.
func Ping() packets.ControlPacket { return packets.NewControlPacket(packets.Pingreq) }

// Disconnect builds a DISCONNECT.
func Disconnect() packets.ControlPacket { return packets.NewControlPacket(packets.Disconnect) }

// Recv drains the socket and returns every complete packet; a partial packet
// stays buffered. An undecodable stream is returned as an error.
func (c *Client) Recv() ([]packets.ControlPacket, error) {
	var b []byte
	if c.Pipe != nil {
		b = c.Pipe.Drain()
	} else {
		b = c.Conn.Drain()
	}
	if c.KeepRaw {
		c.RawIn = append(c.RawIn, b...)
	}
	c.inbuf = append(c.inbuf, b...)
	var out []packets.ControlPacket
	for {
		n, ok, err := frameLen(c.inbuf)
		if err != nil {
			return out, err
		}
		if !ok {
			return out, nil
		}
		p, err := packets.ReadPacket(bytes.NewReader(c.inbuf[:n]))
		if err != nil {
			return out, fmt.Errorf("paho decode: %v (% x)", err, head(c.inbuf[:n]))
		}
		out = append(out, p)
		c.inbuf = c.inbuf[n:]
	}
}

// Leftover is the number of buffered bytes that do not form a whole packet.
func (c *Client) Leftover() int { return len(c.inbuf) }

func head(b []byte) []byte {
	if len(b) > 24 {
		return b[:24]
	}
	return b
}

// frameLen returns the total length of the first packet in b, if complete.
func frameLen(b []byte) (int, bool, error) {
	if len(b) < 2 {
		return 0, false, nil
	}
	mult, rl, i := 1, 0, 1
	for {
		if i >= len(b) {
			return 0, false, nil
		}
		d := int(b[i])
		rl += (d & 127) * mult
		mult *= 128
		i++
		if d&128 == 0 {
			break
		}
		if i > 4 {
			return 0, false, fmt.Errorf("malformed remaining length")
		}
	}
	if len(b) < i+rl {
		return 0, false, nil
	}
	return i + rl, true, nil
}
