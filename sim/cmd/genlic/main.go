package main

import (
	"fmt"

	"github.com/emitter-io/emitter/internal/security/license"
)

func main() {
	type L interface {
		license.License
	}
	for i := 0; i < 2; i++ {
		for v, l := range []license.License{license.NewV1(), license.NewV2(), license.NewV3()} {
			k, err := l.NewMasterKey(1)
			if err != nil {
				panic(err)
			}
			c, _ := l.Cipher()
			m, _ := c.EncryptKey(k)
			fmt.Printf("{Ver: %d, License: %q, Master: %q, Contract: %d},\n", v+1, l.String(), m, l.Contract())
		}
	}
}
