package world

import (
	"fmt"
	"os"
	"path/filepath"
	"testing/synctest"
	"time"

	"github.com/emitter-io/emitter/internal/event"
	"github.com/emitter-io/emitter/internal/message"
	"github.com/emitter-io/emitter/verifsim/kernel"
	"github.com/weaveworks/mesh"
)

// Cluster is W-cluster: N real brokers joined over the simulated mesh.
type Cluster struct {
	C        *kernel.Ctx
	Net      *mesh.Network
	Lic      Lic
	Opts     []BrokerOpts
	Brokers  []*Broker // nil while a node is down
	Panics   []string  // Gossiper callbacks that panicked (process exit in the real mesh)
	gen      []int     // restart generation per node
	routeNet map[string]int
	names    []string // mesh names of the nodes
}

// namePools: the mesh names a run's brokers carry. Names derived from hardware addresses have
// arbitrary bytes: above 0x7f, and the ones a pattern matcher would take for '*', '?' or '\\'.
var namePools = [][]string{
	{"00:00:00:00:00:01", "00:00:00:00:00:02", "00:00:00:00:00:03", "00:00:00:00:00:04"},
	{"00:00:00:00:00:01", "00:00:00:00:00:02", "00:00:00:00:00:03", "00:00:00:00:00:04"},
	{"02:42:ac:11:00:a5", "02:42:ac:11:00:80", "02:42:ac:11:00:ff", "02:42:ac:11:00:c3"},
	{"02:42:ac:11:2a:05", "de:ad:be:ef:5c:ff", "02:42:ac:3f:00:2a", "5c:2a:3f:5b:5d:7f"},
}

// NodeName is the mesh name of node i.
func NodeName(i int) string { return fmt.Sprintf("00:00:00:00:00:%02x", i+1) }

// NodeAddr is the advertised address of node i.
func NodeAddr(i int) string { return fmt.Sprintf("10.0.0.%d:4000", i+1) }

// NewCluster creates the simulated mesh and n brokers (not yet linked).
func NewCluster(c *kernel.Ctx, n int, lic Lic, tweak func(i int, o *BrokerOpts)) *Cluster {
	cl := &Cluster{C: c, Lic: lic, gen: make([]int, n), routeNet: map[string]int{}}
	cl.names = namePools[c.Tape.Choose(len(namePools))]
	if cl.names[0] != NodeName(0) {
		c.Probe("mesh-names-with-arbitrary-bytes")
	}
	c.PreLog = append(c.PreLog, func() {
		for k, v := range cl.routeNet {
			if v != 0 {
				c.LogUnordered("  %s net %+d", k, v)
			}
			delete(cl.routeNet, k)
		}
	})
	cl.Net = mesh.NewNetwork(mesh.Hooks{
		Choose: c.Tape.Choose,
		Log:    func(f string, a ...interface{}) { c.Logf(f, a...) },
		LogU:   func(f string, a ...interface{}) { c.LogUnordered(f, a...) },
		Count:  func(k string) { c.Probe(k) },
		OnPanic: func(where string, v interface{}) {
			cl.Panics = append(cl.Panics, fmt.Sprintf("%s: %v", where, v))
		},
	})
	mesh.Net = cl.Net
	for i := 0; i < n; i++ {
		o := BrokerOpts{Lic: lic, Cluster: true, NodeName: cl.names[i], Advertise: NodeAddr(i),
			StateDir: filepath.Join(c.Scratch, fmt.Sprintf("state%d", i)), Seed: NodeAddr(0)}
		if i == 0 {
			o.Seed = NodeAddr(1)
		}
		if tweak != nil {
			tweak(i, &o)
		}
		cl.Opts = append(cl.Opts, o)
		cl.Brokers = append(cl.Brokers, nil)
		cl.Start(i)
	}
	return cl
}

// Start (re)starts node i on its current state directory.
func (cl *Cluster) Start(i int) *Broker {
	o := cl.Opts[i]
	if o.StateDir != ":memory:" {
		os.MkdirAll(o.StateDir, 0o755)
	}
	b := StartBroker(cl.C, o)
	cl.Brokers[i] = b
	// observe (never alter) what the swarm tells the broker
	sw := b.Svc.VerifSwarm()
	onSub, onUnsub := sw.OnSubscribe, sw.OnUnsubscribe
	// The order in which the events of one payload are applied follows Go map
	// iteration; only the net effect per (broker, filter, peer) of a step is logged.
	sw.OnSubscribe = func(sub message.Subscriber, ev *event.Subscription) bool {
		cl.routeNet[fmt.Sprintf("b%d: route %v -> %s", i, ev.Ssid, sub.ID())]++
		return onSub(sub, ev)
	}
	sw.OnUnsubscribe = func(sub message.Subscriber, ev *event.Subscription) bool {
		cl.routeNet[fmt.Sprintf("b%d: route %v -> %s", i, ev.Ssid, sub.ID())]--
		return onUnsub(sub, ev)
	}
	return b
}

// Name returns the mesh peer name of node i.
func (cl *Cluster) Name(i int) mesh.PeerName {
	n, _ := mesh.PeerNameFromString(cl.names[i])
	return n
}

// Close shuts every live broker down.
func (cl *Cluster) Close() {
	for _, b := range cl.Brokers {
		if b != nil {
			b.Close()
		}
	}
	mesh.Net = nil
}

// Crash kills node i without any shutdown code running; the next Start uses a
// crash image (copy) of its state directory.
func (cl *Cluster) Crash(i int) {
	b := cl.Brokers[i]
	if b == nil {
		return
	}
	cl.Latency()
	cl.Net.Kill(cl.Name(i))
	b.cancel() // stops the dead process' background loops; no Close, nothing is flushed
	for _, c := range b.Clients {
		c.Gone = true
	}
	cl.Brokers[i] = nil
	cl.gen[i]++
	if cl.Opts[i].StateDir != ":memory:" {
		img := filepath.Join(cl.C.Scratch, fmt.Sprintf("state%d-g%d", i, cl.gen[i]))
		CopyDir(cl.Opts[i].StateDir, img)
		cl.Opts[i].StateDir = img
	}
	cl.C.Fault("broker-crash")
}

// Stop shuts node i down cleanly (Close), keeping its state directory.
func (cl *Cluster) Stop(i int) {
	b := cl.Brokers[i]
	if b == nil {
		return
	}
	b.Close()
	cl.Latency()
	cl.Net.Kill(cl.Name(i))
	for _, c := range b.Clients {
		c.Gone = true
	}
	cl.Brokers[i] = nil
	cl.C.Fault("broker-clean-stop")
}

// LinkAll connects every pair of live nodes (full mesh).
func (cl *Cluster) LinkAll() {
	for i := range cl.Brokers {
		for j := i + 1; j < len(cl.Brokers); j++ {
			if cl.Brokers[i] != nil && cl.Brokers[j] != nil {
				cl.Net.Connect(cl.Name(i), cl.Name(j))
			}
		}
	}
}

// Latency lets one microsecond pass. Nothing a network does happens at the very
// nanosecond of its cause: brokers stamp replicated entries with wall-clock
// nanoseconds (an add wins a tie against a remove), so a zero-latency transport
// would produce timestamp ties between an operation on one broker and the
// reaction of another (delivery, peer-offline tombstones) that synchronised
// clocks and a real network cannot produce. Called before every transport event.
func (cl *Cluster) Latency() {
	time.Sleep(time.Microsecond)
	synctest.Wait()
}

// NetStep performs one transport event chosen by the tape; false when idle.
func (cl *Cluster) NetStep() bool {
	cl.Net.Canonicalise()
	evs := cl.Net.Enabled()
	if len(evs) == 0 {
		return false
	}
	e := evs[cl.C.Tape.Choose(len(evs))]
	sn, wi := cl.Net.Pending()
	cl.C.Logf("net %s (of %d enabled; %d sender slots, %d in flight)", e, len(evs), sn, wi)
	if os.Getenv("VERIF_DEBUG_NET") != "" {
		cl.C.Logf("   %s", cl.Net.Describe())
	}
	cl.Latency()
	cl.Net.Do(e)
	synctest.Wait()
	return true
}

// Drain runs transport events (tape-chosen order) until nothing is queued.
func (cl *Cluster) Drain(max int) int {
	n := 0
	for n < max && cl.NetStep() {
		n++
	}
	return n
}

// AdvanceNet moves the clock, fires periodic gossip that falls due and waits
// for quiescence.
func (cl *Cluster) AdvanceNet(d time.Duration) {
	Advance(cl.C, d)
	cl.Net.Tick(time.Now())
	synctest.Wait()
}

// Quiesce: faults have stopped; advance the clock in small steps, running all
// transport events, until `bound` of simulated time has passed.
func (cl *Cluster) Quiesce(bound time.Duration, every func(elapsed time.Duration)) {
	step := 2500 * time.Millisecond
	for el := time.Duration(0); el < bound; el += step {
		if every != nil {
			every(el)
		}
		cl.Drain(10000)
		cl.AdvanceNet(step)
	}
	cl.Drain(10000)
}

// State returns the replicated state of node i.
func (cl *Cluster) State(i int) *event.State {
	return cl.Brokers[i].Svc.VerifSwarm().VerifState()
}

// CopyDir copies a directory tree (sparse-unaware; state directories are small).
func CopyDir(src, dst string) {
	filepath.Walk(src, func(p string, info os.FileInfo, err error) error {
		if err != nil {
			return nil
		}
		rel, _ := filepath.Rel(src, p)
		if info.IsDir() {
			os.MkdirAll(filepath.Join(dst, rel), 0o755)
			return nil
		}
		b, err := os.ReadFile(p)
		if err == nil {
			os.WriteFile(filepath.Join(dst, rel), b, 0o644)
		}
		return nil
	})
}
