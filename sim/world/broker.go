// Package world builds "a cluster": real brokers, simulated clients on
// simulated sockets, the simulated mesh and the fake clock.
package world

import (
	"context"
	"encoding/json"
	"fmt"
	"os"
	"strings"
	"testing/synctest"
	"time"

	"github.com/eclipse/paho.mqtt.golang/packets"
	cfg "github.com/emitter-io/config"
	"github.com/emitter-io/emitter/internal/broker"
	"github.com/emitter-io/emitter/internal/config"
	"github.com/emitter-io/emitter/internal/provider/logging"
	"github.com/emitter-io/emitter/internal/security"
	"github.com/emitter-io/emitter/internal/security/license"
	"github.com/emitter-io/emitter/verifsim/kernel"
	"github.com/emitter-io/emitter/verifsim/mqttc"
	"github.com/emitter-io/emitter/verifsim/simnet"
	"github.com/weaveworks/mesh"
)

// Lic is a fixed, pre-generated license with its master key.
type Lic struct {
	Ver      int
	License  string
	Master   string
	Contract uint32
}

// Licenses[0..2] are the brokers' licenses (v1, v2, v3); Licenses[3..5] are
// foreign licenses of the same versions (other contract, other secret).
var Licenses = []Lic{
	{Ver: 1, License: "c-HajNVTALJRsMmtF7ajTEGocoL4vPSHAAAAAAAAAAI:1", Master: "PJ3UZANSDYymOspR3Wwg1Zcy7LmxWXk5", Contract: 1101558402},
	{Ver: 2, License: "RfBEIOmcbW1g5j9NvICNV_4JqXwReEEzdItJTkqQj_yuIkuYGKO4yvvG0aFEGEbVIT2TUVzK0HvbQva2sff1o60J7Ou0nA8B:2", Master: "36eSiE007x0qx4v-NuNxnArYMI6AXobl", Contract: 2510879479},
	{Ver: 3, License: "PfA8IHo0RCVMsMtKWDJVLuIW6w2o0v7-MBADxIW8MVrXXMg0EBT4cFPpkBkUm8cQb2we8OmPmJ-KCs3Wx8IKAQ:3", Master: "G2QxHWr6X0XPlSbtswC4GUcE38D3pxuC", Contract: 2705837071},
	{Ver: 1, License: "mSLHTOiSFT4yDDLWAcOBrZqm8y5c3z9zAAAAAAAAAAI:1", Master: "T1DlHGici-mLZwhduT8evTEttbc90kYa", Contract: 2594632494},
	{Ver: 2, License: "RfBEIOuMITEomg_LuPRwDZ-OmIT7b0ggSymAJeCS3yzM6UOeGF9OuBivptrSUp1CTTYuqIn3gF5ais2JX-G6lu0H64qh4g4B:2", Master: "t_0FM9Le9GyFFH9u7EN-Vj81nCW8YQZ-", Contract: 2108005729},
	{Ver: 3, License: "PfA8IH_9g47LbkcgEaw3b_fSx5DcuSHeXVB9tFCjTtBwxdt4EEocHGiyBczMbSAvy1-Me6-5la3sAbaikJAPAQ:3", Master: "DV2BHN45lfIyoUbTNXRwRFdoIJqiRRAz", Contract: 495667897},
}

var devnull *os.File

func init() {
	// Emitter logs through log.New(os.Stderr): point the variable at /dev/null.
	// Runtime crash dumps still go to the real file descriptor 2.
	devnull, _ = os.OpenFile(os.DevNull, os.O_WRONLY, 0)
	os.Stderr = devnull
}

// BrokerOpts selects the configuration of one broker.
type BrokerOpts struct {
	Lic         Lic
	Matcher     string // "" (emitter) or "mqtt"
	Storage     string // "", "inmemory", "ssd"
	StorageDir  string
	Retain      int // configured retention (seconds) for retained messages; 0 = default
	Cluster     bool
	NodeName    string // e.g. "00:00:00:00:00:01"
	Advertise   string // e.g. "10.0.0.1:4000"
	Seed        string
	StateDir    string // cluster state directory (":memory:" or a path)
	FlushRate   int
	ReadRate    int
	MessageSize int
}

// Broker is one real broker under simulation.
type Broker struct {
	Svc     *broker.Service
	Opts    BrokerOpts
	Name    mesh.PeerName
	Clients []*mqttc.Client
	cancel  context.CancelFunc
	nconn   int
}

type quiet struct{}

func (quiet) Name() string                           { return "quiet" }
func (quiet) Configure(map[string]interface{}) error { return nil }
func (quiet) Printf(format string, v ...interface{}) {}

// StartBroker creates a real broker.Service (not listening on any socket).
func StartBroker(c *kernel.Ctx, o BrokerOpts) *Broker {
	conf := &config.Config{
		ListenAddr: ":8080",
		License:    o.Lic.License,
		Matcher:    o.Matcher,
		Limit:      config.LimitConfig{MessageSize: o.MessageSize, ReadRate: o.ReadRate, FlushRate: o.FlushRate},
	}
	if o.Storage != "" {
		pc := &cfg.ProviderConfig{Provider: o.Storage, Config: map[string]interface{}{}}
		if o.Storage == "ssd" {
			pc.Config["dir"] = o.StorageDir
		}
		if o.Retain > 0 {
			pc.Config["retain"] = float64(o.Retain)
		}
		conf.Storage = pc
	}
	if o.Cluster {
		conf.Cluster = &config.ClusterConfig{
			NodeName:      o.NodeName,
			ListenAddr:    o.Advertise,
			AdvertiseAddr: o.Advertise,
			Seed:          o.Seed,
			Directory:     o.StateDir,
		}
	}
	ctx, cancel := context.WithCancel(context.Background())
	svc, err := broker.NewService(ctx, conf)
	if err != nil {
		c.Harnessf("NewService: %v", err)
	}
	logging.Logger = quiet{}
	b := &Broker{Svc: svc, Opts: o, cancel: cancel}
	if o.Cluster {
		b.Name = mesh.PeerName(svc.ID())
		svc.VerifStartCluster()
	}
	return b
}

// Close shuts the broker down cleanly.
func (b *Broker) Close() {
	b.Svc.Close()
}

// Attach connects a new simulated client socket to the broker.
func (b *Broker) Attach(name string) *mqttc.Client {
	s, cl := simnet.Pair(name)
	b.Svc.VerifAttach(s)
	c := mqttc.New(name, cl)
	b.Clients = append(b.Clients, c)
	return c
}

// Settle waits for quiescence.
func Settle() { synctest.Wait() }

// Resp is the union of the JSON replies emitter sends.
type Resp struct {
	Req     uint16            `json:"req"`
	Status  int               `json:"status"`
	Message string            `json:"message"`
	Key     string            `json:"key"`
	Channel string            `json:"channel"`
	ID      string            `json:"id"`
	Name    string            `json:"name"`
	Banned  bool              `json:"banned"`
	Links   map[string]string `json:"links"`
}

// Request sends an emitter/<name>/ request and returns the reply found among
// the packets received after quiescence; other packets are returned too.
func Request(c *kernel.Ctx, cl *mqttc.Client, name string, body any) (*Resp, []packets.ControlPacket) {
	payload, _ := json.Marshal(body)
	p := cl.Publish("emitter/"+name+"/", payload, false, false)
	cl.Send(p)
	Settle()
	pkts, err := cl.Recv()
	if err != nil {
		c.Harnessf("request %s: undecodable reply: %v", name, err)
	}
	var resp *Resp
	var rest []packets.ControlPacket
	for _, q := range pkts {
		if pub, ok := q.(*packets.PublishPacket); ok && resp == nil && (pub.TopicName == "emitter/"+name+"/" || pub.TopicName == "emitter/error/") {
			var r Resp
			if json.Unmarshal(pub.Payload, &r) == nil {
				resp = &r
				continue
			}
		}
		rest = append(rest, q)
	}
	return resp, rest
}

// Keygen obtains a channel key through a real emitter/keygen/ request.
func Keygen(c *kernel.Ctx, cl *mqttc.Client, master, channel, typ string, ttl int) string {
	// Two keys requested with the same parameters differ only in a 15-bit random salt: once in 32767
	// they are the same string, and a world that treats them as two keys (bans one, names both in its
	// log) would then report nonsense. Ask again until the key is new for this run.
	for try := 0; ; try++ {
		r, _ := Request(c, cl, "keygen", map[string]any{"key": master, "channel": channel, "type": typ, "ttl": ttl})
		if r == nil || r.Status != 200 || len(r.Key) != 32 {
			c.Harnessf("keygen %s %s failed: %+v", channel, typ, r)
		}
		if c.Once("key:"+r.Key) || try > 20 {
			return r.Key
		}
		c.Probe("keygen-returned-a-key-issued-before")
	}
}

// ConnectClient sends CONNECT, expects CONNACK 0, and learns the connection id.
func ConnectClient(c *kernel.Ctx, cl *mqttc.Client, clientID, username string, will *mqttc.Will) {
	cl.Username = username
	cl.Send(mqttc.Connect(clientID, username, will))
	Settle()
	pkts, err := cl.Recv()
	if err != nil || len(pkts) != 1 {
		c.Harnessf("connect: %v %d packets", err, len(pkts))
	}
	if ack, ok := pkts[0].(*packets.ConnackPacket); !ok || ack.ReturnCode != 0 {
		c.Harnessf("connect: unexpected %v", pkts[0])
	}
	r, _ := Request(c, cl, "me", map[string]any{})
	if r == nil || r.ID == "" {
		c.Harnessf("me: no id")
	}
	cl.ID = r.ID
}

// DirectKey builds a key with the broker's own cipher (used for key kinds that
// the keygen request cannot produce: foreign contract, wrong signature, ...).
func DirectKey(c *kernel.Ctx, lic Lic, mutate func(k security.Key)) string {
	l, err := license.Parse(lic.License)
	if err != nil {
		c.Harnessf("license: %v", err)
	}
	cipher, _ := l.Cipher()
	k := security.Key(make([]byte, 24))
	k.SetSalt(777)
	k.SetMaster(uint16(l.Master()))
	k.SetContract(l.Contract())
	k.SetSignature(l.Signature())
	mutate(k)
	s, err := cipher.EncryptKey(k)
	if err != nil {
		c.Harnessf("encrypt: %v", err)
	}
	return s
}

// Norm replaces volatile identifiers in log lines.
type Norm struct {
	m map[string]string
	n map[string]int
}

// NewNorm creates a normaliser.
func NewNorm() *Norm { return &Norm{m: map[string]string{}, n: map[string]int{}} }

// Name registers s under a stable alias.
func (n *Norm) Name(kind, s string) string {
	if a, ok := n.m[s]; ok {
		return a
	}
	n.n[kind]++
	a := fmt.Sprintf("%s#%d", kind, n.n[kind])
	n.m[s] = a
	return a
}

// Apply rewrites every registered identifier in s.
func (n *Norm) Apply(s string) string {
	for k, v := range n.m {
		if k != "" {
			s = strings.ReplaceAll(s, k, v)
		}
	}
	return s
}

// Advance moves the simulated clock and lets everything that falls due run.
func Advance(c *kernel.Ctx, d time.Duration) {
	time.Sleep(d)
	synctest.Wait()
	c.Stats.SimTime += d
}
