package world

import (
	"io"
	"os"
	"path/filepath"
	"syscall"
)

const (
	seekData = 3
	seekHole = 4
)

// SparseCopyFile copies only the data extents of src (SEEK_DATA/SEEK_HOLE) and
// gives dst the same length: badger pre-allocates a 2 GiB value log and a
// 128 MiB memtable file.
func SparseCopyFile(src, dst string) error {
	in, err := os.Open(src)
	if err != nil {
		return err
	}
	defer in.Close()
	st, err := in.Stat()
	if err != nil {
		return err
	}
	out, err := os.OpenFile(dst, os.O_CREATE|os.O_WRONLY|os.O_TRUNC, 0o644)
	if err != nil {
		return err
	}
	defer out.Close()
	size := st.Size()
	if err := out.Truncate(size); err != nil {
		return err
	}
	fd := int(in.Fd())
	off := int64(0)
	buf := make([]byte, 1<<20)
	for off < size {
		ds, err := syscall.Seek(fd, off, seekData)
		if err != nil {
			break // ENXIO: no more data
		}
		he, err := syscall.Seek(fd, ds, seekHole)
		if err != nil {
			he = size
		}
		for p := ds; p < he; {
			n := int64(len(buf))
			if he-p < n {
				n = he - p
			}
			m, rerr := in.ReadAt(buf[:n], p)
			if m > 0 {
				if _, werr := out.WriteAt(buf[:m], p); werr != nil {
					return werr
				}
			}
			p += int64(m)
			if rerr == io.EOF || m == 0 {
				break
			}
		}
		off = he
	}
	return nil
}

// SparseCopyDir copies a (flat or nested) directory with SparseCopyFile.
func SparseCopyDir(src, dst string) error {
	return filepath.Walk(src, func(p string, info os.FileInfo, err error) error {
		if err != nil {
			return nil
		}
		rel, _ := filepath.Rel(src, p)
		if info.IsDir() {
			return os.MkdirAll(filepath.Join(dst, rel), 0o755)
		}
		return SparseCopyFile(p, filepath.Join(dst, rel))
	})
}

// DataExtents returns the [start,end) data extents of a file.
func DataExtents(path string) (ext [][2]int64, size int64) {
	f, err := os.Open(path)
	if err != nil {
		return nil, 0
	}
	defer f.Close()
	st, _ := f.Stat()
	size = st.Size()
	fd := int(f.Fd())
	for off := int64(0); off < size; {
		ds, err := syscall.Seek(fd, off, seekData)
		if err != nil {
			break
		}
		he, err := syscall.Seek(fd, ds, seekHole)
		if err != nil {
			he = size
		}
		ext = append(ext, [2]int64{ds, he})
		off = he
	}
	return
}
